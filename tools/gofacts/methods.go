package main

// Second translator (DESIGN.md §3.2, "methods"): methods of a small struct whose modelled fields
// are Go ints and one slice of `any`, written with assignments, `++`, `if/else`, early `return`,
// slice reads and writes.  Each method becomes a pure Lean function
//
//	f (fields…) (params…) : (fields… as a tuple) × results × Bool
//
// from the receiver's fields and the parameters to the new field values, the results and an
// "every slice index was in range" flag (Go would panic where the flag is false; the flag is the
// conjunction of `0 ≤ i < len` over the index expressions evaluated on the path taken).
// `any` values are `Option α` (nil = none).  Statements that only touch fields listed as
// synchronisation (`mut`, `readyChan`) — Lock/Unlock, the non-blocking send in a `select` — are
// skipped and named in a note: the lock discipline itself is a gofacts fact.
// Anything outside the subset makes the method "NOT TRANSLATED" and the bridging lemma fails.
//
// Targets with a fixed parameter list (`Params`; the consensus rulesets of protocol/rules, Props/C04Gen) use a
// larger subset: pointer values of opaque types (`nil` is a parameter, a method call through nil clears the
// flag, with Go's short-circuit evaluation of `&&`/`||` respected), chained accessor calls, `==`/`!=` on opaque
// values with decidable equality, the zero value `T{}` as a parameter, calls of methods of the same receiver
// translated before, `return f(x)` forwarding two results, `if init; cond`, `else if`, the blank identifier,
// bool-valued expressions, a struct-typed parameter split into its fields, block scoping (a local that shadows
// a variable of an enclosing block gets a fresh Lean name), logging calls skipped with a note.  In these
// targets every operand type is checked; an `if` whose branches assign nothing is still translated, so that
// anything unsupported inside it is reported rather than dropped.
//
// Targets with `Elem` (the timeout collector, Props/C08Gen) add slices as values: a slice field / local / result of
// an opaque element type is a Lean list, struct fields of the elements are accessor parameters (`FieldAcc`), and a
// few idioms of `append`, `make`, `len`, `slices.ContainsFunc`, `slices.DeleteFunc`, one filtering `for range` loop
// and the nil initialisation are translated — see "slice forms" below for the rules that keep this exact.
//
// Targets with `Bytes` (the BLS bit-field, Props/C19Gen) add a slice of bytes as a `List Nat`: indexing and indexed
// (compound) assignment, `&`, `|`, `<<` on bytes, `append(X, make([]byte, n)...)`, calls of methods of the same receiver
// and of a package-level function translated by main.go — see "byte forms" below.

import (
	"fmt"
	"go/ast"
	"go/parser"
	"go/printer"
	"go/token"
	"os"
	"path/filepath"
	"strconv"
	"strings"
)

type methodTarget struct {
	File    string
	Recv    string   // receiver type name
	Fields  []string // modelled fields, in the order of the state tuple
	Sync    []string // fields whose statements are skipped
	Methods []string
	Out     string
	// optional: opaque value types. Types maps Go type text to a Lean type (a type variable of TypeVars);
	// Accessors gives the Lean result type of niladic methods called on opaque values (`qc.View()`), which
	// become function parameters `<T>_<M> : T → R`; Ext lists receiver fields that are other components:
	// `v, ok := s.<ext>.<M>(arg)` becomes a function parameter `<ext>_<M> : A → R × Bool`.
	TypeVars  []string
	Types     map[string]string
	Accessors map[string]string
	Ext       map[string][2]string // "<ext>.<M>" -> {argument Lean type, result Lean type}
	// extensions used by the consensus rulesets (protocol/rules):
	Log     []string               // logging fields: a statement that is a call on one of them is skipped (its arguments are still evaluated for panics)
	Ptr     map[string]string      // Lean type of pointer values -> name of the parameter standing for `nil`; dereferencing nil clears the last result component
	Zero    map[string]string      // Lean type -> name of the parameter standing for the zero value `T{}`
	Structs map[string][][2]string // Go struct type of a parameter -> {Go field, Lean type}: the parameter becomes one argument `<param>_<field>` per listed field
	ExtFn   map[string][]string    // "<ext>.<M>" -> argument Lean types..., result Lean type: a call usable inside expressions
	Params  []string               // if set: the fixed list of function parameters "(name : type)" that every def of the target takes, in this order
	Deq     []string               // type variables with decidable equality (`==`, `!=` on their values)
	// extensions for slices as values (proof agent S17: the timeout collector); see "slice forms" below
	Elem     map[string]string // Lean list type -> Lean element type ("List T" -> "T"); non-nil switches the slice forms on
	FieldAcc map[string]string // "<T>.<GoField>" -> Lean type: struct field read `x.F` of an opaque value x : T, a parameter `T_F : T → R`
	// extensions for a slice of bytes (proof agent S18: the BLS bit-field); see "byte forms" below
	Bytes   bool             // bytes are Lean `Nat`s below 256, `[]byte` is `List Nat`; switches the byte forms on
	PkgFn   map[string]pkgFn // package-level functions of the same file translated elsewhere (Gen/<…>.lean), callable as `a, b := f(x)`
	Imports []string         // Lean modules the generated file imports
	// extension for the voter (proof agent S19): receiver fields that are other components (their calls are the
	// function parameters of Ext / ExtFn); unlike Sync, a statement that only touches them is NOT skipped
	Comp []string
	// extensions for the certificate checks (proof agent S20: cert.Authority)
	PkgVal map[string][2]string // "<pkg>.<F>" -> {parameter name, Lean type}: the niladic package-level call `pkg.F()` is that parameter value
	Own    map[string][]string  // "<M>" -> argument Lean types..., result Lean type: `recv.<M>(args)`, a method promoted from an embedded component, is the parameter function `<M>`
	IntAcc map[string][2]string // "<M>" -> {parameter name, result Lean type}: niladic method `<M>` called on a value of a Go integer type (`hotstuff.View`)
	// extensions for the timeout rules (proof agent S21: Simple / Aggregate VerifySyncInfo)
	Acc2 map[string]string // "<T>.<M>" -> Lean type R: the niladic accessor `x.<M>()` with results (value, bool) on an opaque value x : T, a parameter `T_M : T → R × Bool`
	// extension for Authority.VerifyAnyQC (proof agent S22)
	Own2 map[string][2]string // "<M>" -> {argument Lean type, result Lean type R}: `v, err := recv.<M>(arg)`, a method of the receiver that is NOT translated, is the parameter function `<M> : A → R × Bool`
	// A Lean type `Option X` (the Go type `*X` of a RESULT only): `nil` is `none`, `&v` for a local v : X is `some v`.
}

// pkgFn: a package-level function translated by the first translator (main.go `targets`)
type pkgFn struct {
	Lean string   // its Lean name
	Args []string // Lean types of its parameters
	Res  []string // Lean types of its (two) results
}

// sibSig: what a call of a method of the same receiver needs to know about the callee (byte forms)
type sibSig struct {
	args []string // Lean types of the parameters
	res  []string // Lean types of the results (empty: none)
	ptr  bool     // pointer receiver: the callee's new field values replace the caller's
}

var methodTargets = []methodTarget{
	{File: "core/eventloop/queue.go", Recv: "queue", Fields: []string{"entries", "head", "tail"}, Sync: []string{"mut", "readyChan"},
		Methods: []string{"push", "pop", "len"}, Out: "Queue", TypeVars: []string{"α"}},
	{File: "protocol/viewstates.go", Recv: "ViewStates", Fields: []string{"highTC", "highQC", "view", "committedBlock"}, Sync: []string{"mut", "blockchain", "auth"},
		Methods: []string{"UpdateHighQC", "UpdateHighTC", "NextView", "EnterViewAfter", "View", "HighQC", "HighTC", "UpdateCommittedBlock", "CommittedBlock"},
		Out:     "ViewStates", TypeVars: []string{"QC", "TC", "Blk", "Hash"},
		Types:     map[string]string{"hotstuff.QuorumCert": "QC", "hotstuff.TimeoutCert": "TC", "*hotstuff.Block": "Blk", "hotstuff.View": "Int", "error": "Bool"},
		Accessors: map[string]string{"View": "Int", "BlockHash": "Hash"},
		Ext:       map[string][2]string{"blockchain.Get": {"Hash", "Blk"}}},
	rulesTarget("protocol/rules/chainedhotstuff.go", "ChainedHotStuff", []string{"bLock"}, "RulesChained"),
	rulesTarget("protocol/rules/fasthotstuff.go", "FastHotStuff", nil, "RulesFast"),
	rulesTarget("protocol/rules/simplehotstuff.go", "SimpleHotStuff", []string{"locked"}, "RulesSimple"),
	{File: "protocol/synchronizer/timeout_collector.go", Recv: "timeoutCollector", Fields: []string{"timeouts"}, Sync: []string{"config"},
		Methods: []string{"add", "deleteOldViews"}, Out: "TimeoutCollector", TypeVars: []string{"T"},
		Types:    map[string]string{"hotstuff.TimeoutMsg": "T", "[]hotstuff.TimeoutMsg": "List T", "hotstuff.View": "Int"},
		Elem:     map[string]string{"List T": "T"},
		FieldAcc: map[string]string{"T.View": "Int", "T.ID": "Int"},
		ExtFn:    map[string][]string{"config.QuorumSize": {"Int"}},
		Params:   []string{"(T_View : T → Int)", "(T_ID : T → Int)", "(config_QuorumSize : Int)"}},
	{File: "security/crypto/bitfield.go", Recv: "Bitfield", Fields: []string{"data", "len"},
		Methods: []string{"extend", "isSet", "set", "Add", "Contains", "Len", "Bytes"}, Out: "BitfieldMethods",
		Types:   map[string]string{"[]byte": "List Nat", "byte": "Nat", "hotstuff.ID": "Int"},
		Elem:    map[string]string{"List Nat": "Nat"},
		Bytes:   true,
		PkgFn:   map[string]pkgFn{"index": {Lean: "HsVerif.Gen.index", Args: []string{"Int"}, Res: []string{"Int", "Int"}}},
		Imports: []string{"HsVerif.Gen.Bitfield"},
		Params:  []string{}},
	// Voter.Verify / Vote / StopVoting (Props/C03Gen).  A proposal is a pointer `*hotstuff.ProposeMsg`: the opaque
	// pointer type Msg (nil = Msg_nil; a field read `proposal.F` or `*proposal` through nil clears the flag; the
	// struct value `*proposal` handed to VoteRule is represented by the pointer it was read through), its fields are
	// the accessor parameters Msg_Block / Msg_AggregateQC / Msg_ID.  `error` is its presence (true = an error).
	{File: "protocol/consensus/voter.go", Recv: "Voter", Fields: []string{"lastVotedView", "lastVotedQCView"},
		Comp:    []string{"config", "leaderRotation", "ruler", "aggregator", "auth", "committer"},
		Methods: []string{"Verify", "Vote", "StopVoting"}, Out: "Voter", TypeVars: []string{"Msg", "Blk", "QC", "AggQC", "Hash", "PC"},
		Types: map[string]string{"*hotstuff.ProposeMsg": "Msg", "*hotstuff.Block": "Blk", "hotstuff.View": "Int",
			"hotstuff.PartialCert": "PC", "error": "Bool"},
		Accessors: map[string]string{"View": "Int", "BlockHash": "Hash", "Parent": "Hash", "QuorumCert": "QC"},
		FieldAcc:  map[string]string{"Msg.Block": "Blk", "Msg.AggregateQC": "AggQC", "Msg.ID": "Int"},
		Ext:       map[string][2]string{"auth.CreatePartialCert": {"Blk", "PC"}},
		ExtFn: map[string][]string{"ruler.VoteRule": {"Int", "Msg", "Bool"}, "auth.VerifyAnyQC": {"Msg", "Bool"},
			"leaderRotation.GetLeader": {"Int", "Int"}},
		Ptr:  map[string]string{"Msg": "Msg_nil", "Blk": "Blk_nil", "AggQC": "AggQC_nil"},
		Zero: map[string]string{"PC": "PC_zero"},
		Deq:  []string{"Msg", "Blk", "AggQC", "Hash"},
		Params: []string{"(Msg_nil : Msg)", "(Blk_nil : Blk)", "(AggQC_nil : AggQC)", "(PC_zero : PC)",
			"(Msg_Block : Msg → Blk)", "(Msg_AggregateQC : Msg → AggQC)", "(Msg_ID : Msg → Int)",
			"(Blk_View : Blk → Int)", "(Blk_Parent : Blk → Hash)", "(Blk_QuorumCert : Blk → QC)",
			"(QC_BlockHash : QC → Hash)", "(QC_View : QC → Int)",
			"(ruler_VoteRule : Int → Msg → Bool)", "(auth_VerifyAnyQC : Msg → Bool)", "(leaderRotation_GetLeader : Int → Int)",
			"(auth_CreatePartialCert : Blk → PC × Bool)"}},
	// Authority.VerifyPartialCert / VerifyQuorumCert / VerifyTimeoutCert (Props/C02Gen).  No modelled field (the methods
	// write nothing: the state tuple is empty).  Blocks, signatures (an interface value) and participant sets (an
	// interface value) are pointer-like: `nil` is a parameter and a method call through nil clears the flag.
	// `c.Verify` is promoted from the embedded crypto.Base: the parameter `Verify` (true = an error); the genesis block
	// `hotstuff.GetGenesis()` is the parameter `genesis`; `error` is its presence.
	{File: "security/cert/auth.go", Recv: "Authority", Fields: []string{},
		Comp:    []string{"config", "blockchain"},
		Methods: []string{"VerifyPartialCert", "VerifyQuorumCert", "VerifyTimeoutCert", "VerifyAnyQC"}, Out: "Authority",
		TypeVars: []string{"QC", "TC", "PC", "Blk", "Hash", "Sig", "IDs", "Bytes", "Msg", "AggQC"},
		Types: map[string]string{"hotstuff.QuorumCert": "QC", "hotstuff.TimeoutCert": "TC", "hotstuff.PartialCert": "PC",
			"hotstuff.View": "Int", "error": "Bool", "*hotstuff.ProposeMsg": "Msg"},
		Accessors: map[string]string{"View": "Int", "BlockHash": "Hash", "Signature": "Sig", "Participants": "IDs", "Len": "Int",
			"Hash": "Hash", "ToBytes": "Bytes", "QuorumCert": "QC", "Sig": "Sig"},
		FieldAcc: map[string]string{"Msg.Block": "Blk", "Msg.AggregateQC": "AggQC"},
		Ext:      map[string][2]string{"blockchain.Get": {"Hash", "Blk"}},
		ExtFn:    map[string][]string{"config.QuorumSize": {"Int"}, "config.HasAggregateQC": {"Bool"}},
		PkgVal:   map[string][2]string{"hotstuff.GetGenesis": {"genesis", "Blk"}},
		// VerifyAnyQC (S22): its calls of VerifyQuorumCert / VerifyAggregateQC (the latter not translated) are parameters
		Own:    map[string][]string{"Verify": {"Sig", "Bytes", "Bool"}, "VerifyQuorumCert": {"QC", "Bool"}},
		Own2:   map[string][2]string{"VerifyAggregateQC": {"AggQC", "QC"}},
		IntAcc: map[string][2]string{"ToBytes": {"View_ToBytes", "Bytes"}},
		Ptr:    map[string]string{"Blk": "Blk_nil", "Sig": "Sig_nil", "IDs": "IDs_nil", "Msg": "Msg_nil", "AggQC": "AggQC_nil"},
		Deq:    []string{"Blk", "Hash", "Sig", "IDs", "Msg", "AggQC"},
		Params: []string{"(Blk_nil : Blk)", "(Sig_nil : Sig)", "(IDs_nil : IDs)", "(genesis : Blk)",
			"(QC_BlockHash : QC → Hash)", "(QC_View : QC → Int)", "(QC_Signature : QC → Sig)",
			"(TC_View : TC → Int)", "(TC_Signature : TC → Sig)",
			"(PC_BlockHash : PC → Hash)", "(PC_Signature : PC → Sig)",
			"(Sig_Participants : Sig → IDs)", "(IDs_Len : IDs → Int)",
			"(Blk_Hash : Blk → Hash)", "(Blk_View : Blk → Int)", "(Blk_ToBytes : Blk → Bytes)",
			"(View_ToBytes : Int → Bytes)",
			"(config_QuorumSize : Int)", "(blockchain_Get : Hash → Blk × Bool)", "(Verify : Sig → Bytes → Bool)",
			"(Msg_nil : Msg)", "(AggQC_nil : AggQC)", "(Msg_Block : Msg → Blk)", "(Msg_AggregateQC : Msg → AggQC)",
			"(Blk_QuorumCert : Blk → QC)", "(AggQC_Sig : AggQC → Sig)", "(AggQC_View : AggQC → Int)",
			"(config_HasAggregateQC : Bool)", "(VerifyQuorumCert : QC → Bool)", "(VerifyAggregateQC : AggQC → QC × Bool)"}},
	// Simple.VerifySyncInfo / Aggregate.VerifySyncInfo (Props/C07RuleGen).  No modelled field.  The sync info is an
	// opaque value SI whose accessors TC / QC / AggQC have results (value, present); the certificate checks of the
	// authority are parameters (true = an error; VerifyAggregateQC returns the high QC and an error); the result
	// `*hotstuff.QuorumCert` is `Option QC` (`nil` = none, `&local` = some local); a signature is pointer-like.
	{File: "protocol/synchronizer/timeoutrule_simple.go", Recv: "Simple", Fields: []string{},
		Comp:    []string{"config", "auth"},
		Methods: []string{"VerifySyncInfo"}, Out: "TimeoutRuleSimple", TypeVars: []string{"SI", "TC", "QC"},
		Types:     map[string]string{"hotstuff.SyncInfo": "SI", "*hotstuff.QuorumCert": "Option QC", "hotstuff.View": "Int", "error": "Bool"},
		Accessors: map[string]string{"View": "Int"},
		Acc2:      map[string]string{"SI.TC": "TC", "SI.QC": "QC"},
		ExtFn:     map[string][]string{"auth.VerifyTimeoutCert": {"TC", "Bool"}, "auth.VerifyQuorumCert": {"QC", "Bool"}},
		Ptr:       map[string]string{},
		Params: []string{"(SI_TC : SI → TC × Bool)", "(SI_QC : SI → QC × Bool)", "(TC_View : TC → Int)", "(QC_View : QC → Int)",
			"(auth_VerifyTimeoutCert : TC → Bool)", "(auth_VerifyQuorumCert : QC → Bool)"}},
	{File: "protocol/synchronizer/timeoutrule_aggregate.go", Recv: "Aggregate", Fields: []string{},
		Comp:    []string{"config", "auth"},
		Methods: []string{"VerifySyncInfo"}, Out: "TimeoutRuleAggregate", TypeVars: []string{"SI", "TC", "QC", "AggQC", "Sig"},
		Types:     map[string]string{"hotstuff.SyncInfo": "SI", "*hotstuff.QuorumCert": "Option QC", "hotstuff.View": "Int", "error": "Bool"},
		Accessors: map[string]string{"View": "Int", "Sig": "Sig"},
		Acc2:      map[string]string{"SI.TC": "TC", "SI.QC": "QC", "SI.AggQC": "AggQC"},
		Ext:       map[string][2]string{"auth.VerifyAggregateQC": {"AggQC", "QC"}},
		ExtFn:     map[string][]string{"auth.VerifyTimeoutCert": {"TC", "Bool"}, "auth.VerifyQuorumCert": {"QC", "Bool"}},
		Ptr:       map[string]string{"Sig": "Sig_nil"},
		Deq:       []string{"Sig"},
		Params: []string{"(Sig_nil : Sig)", "(SI_TC : SI → TC × Bool)", "(SI_QC : SI → QC × Bool)", "(SI_AggQC : SI → AggQC × Bool)",
			"(TC_View : TC → Int)", "(QC_View : QC → Int)", "(AggQC_View : AggQC → Int)", "(AggQC_Sig : AggQC → Sig)",
			"(auth_VerifyTimeoutCert : TC → Bool)", "(auth_VerifyQuorumCert : QC → Bool)", "(auth_VerifyAggregateQC : AggQC → QC × Bool)"}},
}

// rulesTarget: CommitRule / VoteRule (and the helper qcRef where the ruleset has one) of a consensus ruleset.
// Blocks and aggregate QCs are pointer values (`nil` is the parameter `Blk_nil` / `AggQC_nil`), hashes and
// certificates opaque values, views Int; the accessors of blocks and certificates and the two methods of the
// block store (`Get`, `Extends`) are parameters, the same fixed list for every def (so that the signature does
// not depend on which of them a method happens to use).
func rulesTarget(file, recv string, fields []string, out string) methodTarget {
	methods := []string{"qcRef", "CommitRule", "VoteRule"}
	if recv == "SimpleHotStuff" {
		methods = methods[1:]
	}
	return methodTarget{File: file, Recv: recv, Fields: fields, Sync: []string{"config", "blockchain"}, Log: []string{"logger"},
		Methods: methods, Out: out, TypeVars: []string{"Blk", "QC", "AggQC", "Hash"},
		Types: map[string]string{"hotstuff.QuorumCert": "QC", "*hotstuff.Block": "Blk", "hotstuff.View": "Int", "hotstuff.Hash": "Hash",
			"*hotstuff.AggregateQC": "AggQC"},
		Accessors: map[string]string{"View": "Int", "BlockHash": "Hash", "Parent": "Hash", "Hash": "Hash", "QuorumCert": "QC"},
		Ext:       map[string][2]string{"blockchain.Get": {"Hash", "Blk"}},
		ExtFn:     map[string][]string{"blockchain.Extends": {"Blk", "Blk", "Bool"}},
		Ptr:       map[string]string{"Blk": "Blk_nil", "AggQC": "AggQC_nil"},
		Zero:      map[string]string{"Hash": "Hash_zero"},
		Structs:   map[string][][2]string{"hotstuff.ProposeMsg": {{"Block", "Blk"}, {"AggregateQC", "AggQC"}}},
		Deq:       []string{"Blk", "AggQC", "Hash"},
		Params: []string{"(Blk_nil : Blk)", "(AggQC_nil : AggQC)", "(Hash_zero : Hash)",
			"(Blk_View : Blk → Int)", "(Blk_Parent : Blk → Hash)", "(Blk_Hash : Blk → Hash)", "(Blk_QuorumCert : Blk → QC)",
			"(QC_BlockHash : QC → Hash)", "(QC_View : QC → Int)", "(AggQC_View : AggQC → Int)",
			"(blockchain_Get : Hash → Blk × Bool)", "(blockchain_Extends : Blk → Blk → Bool)"},
	}
}

type mtr struct {
	fset      *token.FileSet
	tg        methodTarget
	recv      string // receiver variable name
	ftype     map[string]string
	err       error
	notes     []string
	checks    []string            // pending index checks of the statement being translated
	vtype     map[string]string   // Lean type of parameters, fields (by Lean variable name) and locals where known
	used      []string            // function parameters (accessors, external calls) used by the method, "name : type"
	resTy     []string            // Lean result types of the method being translated
	ren       map[string]string   // Go name -> Lean name, for locals that shadow a variable of an enclosing block
	fresh     int                 // counter for such names
	sib       map[string][]string // methods of the target translated so far -> their Lean result types (for calls `recv.m(...)`)
	sparam    map[string]bool     // parameters of struct type (expanded into one argument per field)
	cur       *mctx               // context of the statement being translated (slice forms: closure parameters must not capture)
	slicesPkg bool                // the file imports the standard package "slices" under its own name
	mutOK     bool                // inside `X = append(X, …)` / `X = slices.DeleteFunc(X, …)` (slice forms)
	sibB      map[string]sibSig   // byte forms: methods of the target translated so far
	ptrRecv   bool                // byte forms: the method being translated has a pointer receiver
	file      *ast.File           // byte forms: the parsed file (signatures of package-level functions)
}

// id: the Lean name of a Go variable
func (t *mtr) id(name string) string {
	if r, ok := t.ren[name]; ok {
		return r
	}
	return leanIdent(name)
}

func copyRen(m map[string]string) map[string]string {
	o := map[string]string{}
	for k, v := range m {
		o[k] = v
	}
	return o
}

// typed records the Lean type of a translated expression (keyed by its text)
func (t *mtr) typed(s, ty string) string {
	if ty != "" {
		t.vtype[s] = ty
	}
	return s
}

func (t *mtr) paramNames() []string {
	var out []string
	for _, p := range t.tg.Params {
		out = append(out, strings.TrimSpace(strings.SplitN(strings.TrimPrefix(p, "("), ":", 2)[0]))
	}
	return out
}

func inList(l []string, x string) bool {
	for _, y := range l {
		if y == x {
			return true
		}
	}
	return false
}

// derefCheck: Go panics when a method is called through a nil pointer
func (t *mtr) derefCheck(recv string) {
	if nilName, ok := t.tg.Ptr[t.vtype[recv]]; ok {
		t.use(fmt.Sprintf("(%s : %s)", nilName, t.vtype[recv]))
		if chk := fmt.Sprintf("(decide (%s ≠ %s))", recv, nilName); !inList(t.checks, chk) {
			t.checks = append(t.checks, chk)
		}
	}
}

func (t *mtr) use(decl string) {
	if t.tg.Params != nil {
		if !inList(t.tg.Params, decl) && t.err == nil {
			t.err = fmt.Errorf("needs a parameter outside the target's list: %s", decl)
		}
		return
	}
	for _, u := range t.used {
		if u == decl {
			return
		}
	}
	t.used = append(t.used, decl)
}

// importsPkg: the file imports a package whose path ends in `name`, under its own name
func (t *mtr) importsPkg(name string) bool {
	if t.file == nil {
		return false
	}
	for _, im := range t.file.Imports {
		p := strings.Trim(im.Path.Value, `"`)
		if im.Name == nil && (p == name || strings.HasSuffix(p, "/"+name)) {
			return true
		}
	}
	return false
}

func (t *mtr) lt(goType string) string {
	if ty := leanType(goType); ty != "" {
		return ty
	}
	return t.tg.Types[goType]
}

func (t *mtr) src(n ast.Node) string {
	var sb strings.Builder
	printer.Fprint(&sb, t.fset, n)
	return sb.String()
}

func (t *mtr) fail(n ast.Node, why string) string {
	if t.err == nil {
		t.err = fmt.Errorf("%s: %s", why, strings.ReplaceAll(t.src(n), "\n", " "))
	}
	return "0"
}

func (t *mtr) isField(e ast.Expr) (string, bool) {
	if s, ok := e.(*ast.SelectorExpr); ok {
		if id, ok := s.X.(*ast.Ident); ok && id.Name == t.recv {
			return s.Sel.Name, true
		}
	}
	return "", false
}

func (t *mtr) modelled(f string) bool {
	for _, x := range t.tg.Fields {
		if x == f {
			return true
		}
	}
	return false
}

func (t *mtr) isSync(f string) bool {
	for _, x := range t.tg.Sync {
		if x == f {
			return true
		}
	}
	return false
}

func fieldVar(recv, f string) string { return recv + "_" + f }

func leanType(goType string) string {
	switch goType {
	case "int":
		return "Int"
	case "bool":
		return "Bool"
	case "any":
		return "Option α"
	case "[]any":
		return "List (Option α)"
	}
	return ""
}

func (t *mtr) expr(e ast.Expr) string {
	switch x := e.(type) {
	case *ast.Ident:
		switch x.Name {
		case "nil":
			return "none"
		case "true", "false":
			return t.typed(x.Name, "Bool")
		case "_":
			return t.fail(e, "blank identifier as a value")
		}
		if x.Name == "nil" && t.tg.Ptr != nil {
			return t.fail(e, "nil without a pointer type in context")
		}
		return t.id(x.Name)
	case *ast.BasicLit:
		if x.Kind == token.INT {
			return t.typed(x.Value, "Int")
		}
		return t.fail(e, "literal")
	case *ast.ParenExpr:
		in := t.expr(x.X)
		return t.typed("("+in+")", t.vtype[in])
	case *ast.CompositeLit:
		// the zero value `T{}` of an opaque type
		if len(x.Elts) == 0 && x.Type != nil {
			if ty := t.lt(t.src(x.Type)); ty != "" {
				if z, ok := t.tg.Zero[ty]; ok {
					t.use(fmt.Sprintf("(%s : %s)", z, ty))
					return t.typed(z, ty)
				}
			}
		}
		return t.fail(e, "composite literal")
	case *ast.StarExpr:
		// `*p` for a pointer p to an opaque struct (voter): the struct value is represented by the pointer it is read
		// through (it is only handed to parameter functions); dereferencing nil clears the flag
		if t.tg.Comp != nil {
			in := t.expr(x.X)
			if _, ok := t.tg.Ptr[t.vtype[in]]; ok && t.tg.FieldAcc != nil {
				t.derefCheck(in)
				return in
			}
		}
		return t.fail(e, "dereference")
	case *ast.UnaryExpr:
		if x.Op == token.SUB {
			return t.typed("(-"+t.expr(x.X)+")", "Int")
		}
		if x.Op == token.NOT && t.tg.Params != nil {
			return t.typed("(decide "+t.cond(e)+")", "Bool")
		}
		return t.fail(e, "unary operator")
	case *ast.SelectorExpr:
		if f, ok := t.isField(x); ok && t.modelled(f) {
			return fieldVar(t.recv, f)
		}
		if id, ok := x.X.(*ast.Ident); ok && t.sparam[id.Name] {
			v := leanIdent(id.Name) + "_" + x.Sel.Name
			if t.vtype[v] != "" {
				return v
			}
		}
		if r, ok := t.fieldRead(x); ok {
			return r
		}
		return t.fail(e, "selector")
	case *ast.IndexExpr:
		if f, ok := t.isField(x.X); ok && t.modelled(f) && t.ftype[f] == "[]any" {
			i := t.expr(x.Index)
			t.checks = append(t.checks, fmt.Sprintf("(decide (0 ≤ %s ∧ %s < (%s.length : Int)))", i, i, fieldVar(t.recv, f)))
			return fmt.Sprintf("(getI %s %s)", fieldVar(t.recv, f), i)
		}
		if t.tg.Bytes {
			if r, ok := t.byteIndex(x); ok {
				return r
			}
		}
		return t.fail(e, "index")
	case *ast.BinaryExpr:
		if t.tg.Params != nil {
			switch x.Op {
			case token.LAND, token.LOR, token.LSS, token.LEQ, token.GTR, token.GEQ, token.EQL, token.NEQ:
				// a Go bool computed by comparison / short-circuit operators
				return t.typed("(decide "+t.cond(e)+")", "Bool")
			}
		}
		if t.tg.Bytes {
			switch x.Op {
			case token.AND, token.OR, token.SHL:
				return t.byteBin(x)
			}
		}
		l, r := t.expr(x.X), t.expr(x.Y)
		if t.tg.Bytes && (t.vtype[l] != "Int" || t.vtype[r] != "Int") {
			return t.fail(e, "arithmetic on operands of type '"+t.vtype[l]+"' and '"+t.vtype[r]+"'")
		}
		switch x.Op {
		case token.ADD:
			return t.typed("("+l+" + "+r+")", "Int")
		case token.SUB:
			return t.typed("("+l+" - "+r+")", "Int")
		case token.MUL:
			return t.typed("("+l+" * "+r+")", "Int")
		}
		return t.fail(e, "operator")
	case *ast.CallExpr:
		if exprName(x.Fun) == "fmt.Errorf" {
			if t.tg.Comp != nil {
				// the arguments are evaluated (a nil dereference among them would panic)
				for _, a := range x.Args {
					if bl, ok := a.(*ast.BasicLit); ok && bl.Kind == token.STRING {
						continue
					}
					t.expr(a)
				}
				return t.typed("true", "Bool")
			}
			return "true" // an error value: only its presence is modelled
		}
		if pv, ok := t.tg.PkgVal[exprName(x.Fun)]; ok && len(x.Args) == 0 {
			// a niladic package-level function whose value is a parameter: `hotstuff.GetGenesis()`
			if se, isSel := x.Fun.(*ast.SelectorExpr); isSel {
				if pk, isId := se.X.(*ast.Ident); isId && pk.Obj == nil && !t.cur.scope[t.id(pk.Name)] && t.importsPkg(pk.Name) {
					t.use(fmt.Sprintf("(%s : %s)", pv[0], pv[1]))
					return t.typed(pv[0], pv[1])
				}
			}
			return t.fail(e, "package-level call")
		}
		if se, ok := x.Fun.(*ast.SelectorExpr); ok && len(x.Args) == 0 && t.tg.IntAcc != nil {
			if ia, ok := t.tg.IntAcc[se.Sel.Name]; ok {
				// a niladic method of a Go integer type: `tc.View().ToBytes()`; the receiver must be a call of an accessor
				// whose Lean type is Int (a view), not an arbitrary int
				if in, isCall := se.X.(*ast.CallExpr); isCall {
					if ise, isSel := in.Fun.(*ast.SelectorExpr); isSel && ise.Sel.Name == "View" && len(in.Args) == 0 {
						recv := t.expr(se.X)
						if t.vtype[recv] == "Int" {
							t.use(fmt.Sprintf("(%s : Int → %s)", ia[0], ia[1]))
							return t.typed("("+ia[0]+" "+recv+")", ia[1])
						}
					}
				}
			}
		}
		if se, ok := x.Fun.(*ast.SelectorExpr); ok && t.tg.Own != nil {
			// a method promoted from an embedded component, called on the receiver: `c.Verify(sig, msg)`
			if id, isId := se.X.(*ast.Ident); isId && id.Name == t.recv {
				if sig, ok := t.tg.Own[se.Sel.Name]; ok && len(sig) == len(x.Args)+1 {
					fn := se.Sel.Name
					t.use(fmt.Sprintf("(%s : %s)", fn, strings.Join(sig, " → ")))
					call := "(" + fn
					for i, a := range x.Args {
						as := t.expr(a)
						if t.vtype[as] != sig[i] {
							return t.fail(e, "argument type of "+fn)
						}
						call += " " + as
					}
					return t.typed(call+")", sig[len(sig)-1])
				}
			}
		}
		if se, ok := x.Fun.(*ast.SelectorExpr); ok && len(x.Args) == 0 {
			if rty, ok := t.tg.Accessors[se.Sel.Name]; ok {
				recv := t.expr(se.X)
				if ty := t.vtype[recv]; ty != "" && ty != "Int" && ty != "Bool" {
					fn := ty + "_" + se.Sel.Name
					t.use(fmt.Sprintf("(%s : %s → %s)", fn, ty, rty))
					t.derefCheck(recv)
					return t.typed("("+fn+" "+recv+")", rty)
				}
			}
		}
		if se, ok := x.Fun.(*ast.SelectorExpr); ok {
			// a call into another component that returns one value: `hs.blockchain.Extends(a, b)`
			if f, ok := t.isField(se.X); ok {
				if sig, ok := t.tg.ExtFn[f+"."+se.Sel.Name]; ok && len(sig) == len(x.Args)+1 {
					fn := f + "_" + se.Sel.Name
					t.use(fmt.Sprintf("(%s : %s)", fn, strings.Join(sig, " → ")))
					call := "(" + fn
					for i, a := range x.Args {
						as := t.expr(a)
						if t.vtype[as] != sig[i] {
							return t.fail(e, "argument type of "+fn)
						}
						call += " " + as
					}
					return t.typed(call+")", sig[len(sig)-1])
				}
			}
		}
		if exprName(x.Fun) == "len" && len(x.Args) == 1 {
			if f, ok := t.isField(x.Args[0]); ok && t.modelled(f) && t.ftype[f] == "[]any" {
				return "(" + fieldVar(t.recv, f) + ".length : Int)"
			}
		}
		if t.tg.Bytes {
			if r, ok := t.sibExpr(x); ok {
				return r
			}
		}
		if t.tg.Elem != nil {
			if r, ok := t.listCall(x); ok {
				return r
			}
		}
		return t.fail(e, "call")
	}
	return t.fail(e, "expression")
}

func (t *mtr) cond(e ast.Expr) string {
	switch x := e.(type) {
	case *ast.ParenExpr:
		return "(" + t.cond(x.X) + ")"
	case *ast.Ident:
		if t.vtype[t.id(x.Name)] == "Bool" {
			return "(" + t.id(x.Name) + " = true)"
		}
	case *ast.UnaryExpr:
		if id, ok := x.X.(*ast.Ident); ok && x.Op == token.NOT && t.vtype[t.id(id.Name)] == "Bool" {
			return "(" + t.id(id.Name) + " = false)"
		}
		if x.Op == token.NOT && t.tg.Params != nil {
			return "(¬ " + t.cond(x.X) + ")"
		}
	case *ast.BinaryExpr:
		switch x.Op {
		case token.LAND, token.LOR:
			// Go evaluates the right operand only if the left one does not decide: the panic checks of the
			// right operand are guarded by the left operand
			l := t.cond(x.X)
			n := len(t.checks)
			r := t.cond(x.Y)
			for i := n; i < len(t.checks); i++ {
				if x.Op == token.LAND {
					t.checks[i] = "(!(decide " + l + ") || " + t.checks[i] + ")"
				} else {
					t.checks[i] = "((decide " + l + ") || " + t.checks[i] + ")"
				}
			}
			if x.Op == token.LAND {
				return "(" + l + " ∧ " + r + ")"
			}
			return "(" + l + " ∨ " + r + ")"
		case token.LSS, token.LEQ, token.GTR, token.GEQ, token.EQL, token.NEQ:
			op := map[token.Token]string{token.LSS: "<", token.LEQ: "≤", token.GTR: ">", token.GEQ: "≥", token.EQL: "=", token.NEQ: "≠"}[x.Op]
			if x.Op == token.EQL || x.Op == token.NEQ {
				// comparison of a pointer with nil
				isNil := func(e ast.Expr) bool { id, ok := e.(*ast.Ident); return ok && id.Name == "nil" }
				if t.tg.Ptr != nil && (isNil(x.X) != isNil(x.Y)) {
					o := x.X
					if isNil(x.X) {
						o = x.Y
					}
					os := t.expr(o)
					if t.tg.Comp != nil && t.vtype[os] == "Bool" && t.tg.Types["error"] == "Bool" {
						// an `error` (a Go bool cannot be compared with nil): present or not
						if x.Op == token.NEQ {
							return "(" + os + " = true)"
						}
						return "(" + os + " = false)"
					}
					nilName, ok := t.tg.Ptr[t.vtype[os]]
					if !ok || !inList(t.tg.Deq, t.vtype[os]) {
						t.fail(e, "comparison with nil of a value that is not a pointer")
						return "True"
					}
					t.use(fmt.Sprintf("(%s : %s)", nilName, t.vtype[os]))
					return "(" + os + " " + op + " " + nilName + ")"
				}
			}
			var l, r string
			switch {
			case t.tg.Bytes && isUntypedConst(x.Y) && !isUntypedConst(x.X):
				// a byte compared with an untyped constant: the constant is a byte
				if l = t.expr(x.X); t.vtype[l] == "Nat" {
					r = t.asByte(x.Y)
				} else {
					r = t.expr(x.Y)
				}
			case t.tg.Bytes && isUntypedConst(x.X) && !isUntypedConst(x.Y):
				if r = t.expr(x.Y); t.vtype[r] == "Nat" {
					l = t.asByte(x.X)
				} else {
					l = t.expr(x.X)
				}
			default:
				l, r = t.expr(x.X), t.expr(x.Y)
			}
			if t.tg.Params != nil {
				// operand types must be known and agree; `<` needs Int, `==` Int, Bool or a type with decidable equality
				lt, rt := t.vtype[l], t.vtype[r]
				okTy := lt == rt && (lt == "Int" || (t.tg.Bytes && lt == "Nat") || ((x.Op == token.EQL || x.Op == token.NEQ) && (lt == "Bool" || inList(t.tg.Deq, lt))))
				if !okTy {
					t.fail(e, "comparison of operands of type '"+lt+"' and '"+rt+"'")
					return "True"
				}
			}
			return "(" + l + " " + op + " " + r + ")"
		}
	}
	if t.tg.Params != nil {
		// any other expression of type bool
		if s := t.expr(e); t.vtype[s] == "Bool" {
			return "(" + s + " = true)"
		}
	}
	t.fail(e, "condition")
	return "True"
}

// target variable of an assignable expression (local, named result or modelled int field)
func (t *mtr) lhsVar(e ast.Expr) (string, bool) {
	if id, ok := e.(*ast.Ident); ok {
		return t.id(id.Name), true
	}
	if f, ok := t.isField(e); ok && t.modelled(f) && t.ftype[f] != "[]any" {
		return fieldVar(t.recv, f), true
	}
	return "", false
}

// syncOnly: a statement that only concerns the synchronisation fields
func (t *mtr) syncOnly(s ast.Stmt) bool {
	touches := func(n ast.Node) (sync, other bool) {
		ast.Inspect(n, func(m ast.Node) bool {
			if se, ok := m.(*ast.SelectorExpr); ok {
				if f, ok := t.isField(se); ok {
					if t.isSync(f) {
						sync = true
					} else {
						other = true
					}
					return false
				}
			}
			if id, ok := m.(*ast.Ident); ok && id.Obj != nil && id.Obj.Kind == ast.Var && id.Name != t.recv {
				other = true
			}
			return true
		})
		return
	}
	switch x := s.(type) {
	case *ast.ExprStmt, *ast.DeferStmt:
		sy, ot := touches(x)
		return sy && !ot
	case *ast.SelectStmt:
		// every communication clause sends the empty struct on a sync channel or is `default`, with empty bodies
		for _, c := range x.Body.List {
			cc := c.(*ast.CommClause)
			if len(cc.Body) != 0 {
				return false
			}
			if cc.Comm == nil {
				continue
			}
			snd, ok := cc.Comm.(*ast.SendStmt)
			if !ok {
				return false
			}
			f, ok := t.isField(snd.Chan)
			if !ok || !t.isSync(f) || t.src(snd.Value) != "struct{}{}" {
				return false
			}
		}
		return true
	}
	return false
}

// assignedVars: variables (Lean names) a statement list may assign, in order of first occurrence,
// restricted to those already declared in `scope`.
func (t *mtr) assignedVars(list []ast.Stmt, scope map[string]bool) []string {
	var out []string
	seen := map[string]bool{}
	add := func(v string) {
		if scope[v] && !seen[v] {
			seen[v] = true
			out = append(out, v)
		}
	}
	for _, s := range list {
		ast.Inspect(s, func(n ast.Node) bool {
			switch x := n.(type) {
			case *ast.AssignStmt:
				for _, l := range x.Lhs {
					if ie, ok := l.(*ast.IndexExpr); ok {
						if f, ok := t.isField(ie.X); ok {
							add(fieldVar(t.recv, f))
							add("inb")
						}
					} else if v, ok := t.lhsVar(l); ok {
						add(v)
					}
				}
			case *ast.IncDecStmt:
				if v, ok := t.lhsVar(x.X); ok {
					add(v)
				}
			case *ast.IndexExpr:
				add("inb")
			case *ast.CallExpr:
				if id, ok := x.Fun.(*ast.Ident); ok && id.Name == "make" && t.tg.Elem != nil {
					add("inb") // make panics on a negative size
				}
				if t.tg.Bytes {
					add("inb") // byte forms: any call may clear the flag
				}
				if se, ok := x.Fun.(*ast.SelectorExpr); ok && (t.tg.Ptr != nil || t.tg.Bytes) {
					if _, acc := t.tg.Accessors[se.Sel.Name]; acc {
						add("inb") // a dereference: may clear the flag
					}
					if id, ok := se.X.(*ast.Ident); ok && id.Name == t.recv {
						// a call of another method of the receiver: may change every field and the flag
						add("inb")
						for _, f := range t.tg.Fields {
							add(fieldVar(t.recv, f))
						}
					}
				}
			case *ast.BinaryExpr:
				if x.Op == token.SHL && t.tg.Bytes {
					add("inb") // a negative shift count panics
				}
			}
			return true
		})
	}
	return out
}

func terminates(list []ast.Stmt) bool {
	if len(list) == 0 {
		return false
	}
	switch x := list[len(list)-1].(type) {
	case *ast.ReturnStmt:
		return true
	case *ast.IfStmt:
		if x.Else == nil {
			return false
		}
		eb, ok := x.Else.(*ast.BlockStmt)
		return ok && terminates(x.Body.List) && terminates(eb.List)
	}
	return false
}

func containsReturn(list []ast.Stmt) bool {
	found := false
	for _, s := range list {
		ast.Inspect(s, func(n ast.Node) bool {
			if _, ok := n.(*ast.ReturnStmt); ok {
				found = true
			}
			return !found
		})
	}
	return found
}

func tupleOf(vs []string) string {
	if len(vs) == 1 {
		return vs[0]
	}
	return "(" + strings.Join(vs, ", ") + ")"
}

// projections of a right-nested tuple p with n components
func proj(p string, k, n int) string {
	if n == 1 {
		return p
	}
	s := p
	for i := 0; i < k; i++ {
		s += ".2"
	}
	if k < n-1 {
		s += ".1"
	}
	return s
}

type mctx struct {
	scope   map[string]bool // declared Lean variables
	results []string        // named results (Lean names), if any
	state   []string        // field variables
	local   map[string]bool // Go names declared in the current Go block; nil in the outermost block of the function
}

func (c *mctx) clone() *mctx {
	m := map[string]bool{}
	for k, v := range c.scope {
		m[k] = v
	}
	var l map[string]bool
	if c.local != nil {
		l = map[string]bool{}
		for k, v := range c.local {
			l[k] = v
		}
	}
	return &mctx{m, c.results, c.state, l}
}

// nested: the context of a Go block inside the current one
func (c *mctx) nested() *mctx {
	n := c.clone()
	n.local = map[string]bool{}
	return n
}

// declare: `name := …` in context c (already cloned by the caller).  A name declared in an inner block that is
// visible from an enclosing block shadows it in Go only until the end of the inner block, while the Lean
// translation puts the code after the inner block inside it: such a local gets a fresh Lean name.
func (t *mtr) declare(c *mctx, name string) string {
	v := t.id(name)
	if c.local != nil && !c.local[name] && c.scope[v] {
		t.fresh++
		v = fmt.Sprintf("%s'%d", leanIdent(name), t.fresh)
		t.ren[name] = v
	}
	if c.local != nil {
		c.local[name] = true
	}
	c.scope[v] = true
	return v
}

// logOnly: `recv.<logging field>.<M>(args…)`
func (t *mtr) logOnly(s ast.Stmt) (*ast.CallExpr, bool) {
	es, ok := s.(*ast.ExprStmt)
	if !ok {
		return nil, false
	}
	call, ok := es.X.(*ast.CallExpr)
	if !ok {
		return nil, false
	}
	se, ok := call.Fun.(*ast.SelectorExpr)
	if !ok {
		return nil, false
	}
	f, ok := t.isField(se.X)
	return call, ok && inList(t.tg.Log, f)
}

// twoResults: the translation of a call with results (value, bool): an external `recv.<ext>.<M>(arg)` or a
// method of the target translated before.  Returns Lean lines binding r' and the texts of the two results.
func (t *mtr) twoResults(call *ast.CallExpr, c *mctx, ind string) (pre, val, ok2, valTy string, ok bool) {
	se, isSel := call.Fun.(*ast.SelectorExpr)
	if !isSel {
		return
	}
	if f, isF := t.isField(se.X); isF && len(call.Args) == 1 {
		if sig, found := t.tg.Ext[f+"."+se.Sel.Name]; found {
			fn := f + "_" + se.Sel.Name
			t.use(fmt.Sprintf("(%s : %s → %s × Bool)", fn, sig[0], sig[1]))
			arg := t.expr(call.Args[0])
			if t.tg.Params != nil && t.vtype[arg] != sig[0] {
				t.fail(call, "argument type of "+fn)
			}
			pre = t.flushChecks(ind) + fmt.Sprintf("%slet r' := (%s %s)\n", ind, fn, arg)
			return pre, "r'.1", "r'.2", sig[1], true
		}
	}
	if id, isId := se.X.(*ast.Ident); isId && id.Name == t.recv && t.tg.Own2 != nil && len(call.Args) == 1 {
		// `v, err := recv.<M>(arg)` for a method of the receiver that is a parameter function
		if sig, found := t.tg.Own2[se.Sel.Name]; found {
			fn := se.Sel.Name
			t.use(fmt.Sprintf("(%s : %s → %s × Bool)", fn, sig[0], sig[1]))
			arg := t.expr(call.Args[0])
			if t.vtype[arg] != sig[0] {
				t.fail(call, "argument type of "+fn)
			}
			pre = t.flushChecks(ind) + fmt.Sprintf("%slet r' := (%s %s)\n", ind, fn, arg)
			return pre, "r'.1", "r'.2", sig[1], true
		}
	}
	if id, isId := se.X.(*ast.Ident); isId && id.Name != t.recv && t.tg.Acc2 != nil && len(call.Args) == 0 {
		// `v, ok := x.M()` on an opaque value x (a variable in scope) whose accessor has results (value, bool)
		x := t.id(id.Name)
		if rty, found := t.tg.Acc2[t.vtype[x]+"."+se.Sel.Name]; found && c.scope[x] && t.vtype[x] != "" {
			fn := t.vtype[x] + "_" + se.Sel.Name
			t.use(fmt.Sprintf("(%s : %s → %s × Bool)", fn, t.vtype[x], rty))
			t.derefCheck(x)
			pre = t.flushChecks(ind) + fmt.Sprintf("%slet r' := (%s %s)\n", ind, fn, x)
			return pre, "r'.1", "r'.2", rty, true
		}
	}
	if id, isId := se.X.(*ast.Ident); isId && id.Name == t.recv && t.tg.Params != nil {
		if rty, found := t.sib[se.Sel.Name]; found && len(rty) == 2 && rty[1] == "Bool" {
			app := "(" + t.tg.Recv + "_" + se.Sel.Name + " " + strings.Join(t.paramNames(), " ")
			for _, v := range c.state {
				app += " " + v
			}
			for _, a := range call.Args {
				app += " " + t.expr(a)
			}
			pre = t.flushChecks(ind) + fmt.Sprintf("%slet r' := %s)\n", ind, app)
			for k, v := range c.state {
				pre += fmt.Sprintf("%slet %s := %s\n", ind, v, proj("r'.1", k, len(c.state)))
			}
			pre += fmt.Sprintf("%slet inb : Bool := inb && r'.2.2\n", ind)
			return pre, "r'.2.1.1", "r'.2.1.2", rty[0], true
		}
	}
	return
}

func (t *mtr) flushChecks(ind string) string {
	var sb strings.Builder
	for _, c := range t.checks {
		fmt.Fprintf(&sb, "%slet inb : Bool := inb && %s\n", ind, c)
	}
	t.checks = nil
	return sb.String()
}

// block translates stmts followed by the continuation `rest` (Lean text of the value of what follows).
func (t *mtr) block(list []ast.Stmt, c *mctx, ind string, rest func(c *mctx, ind string) string) string {
	if len(list) == 0 {
		return rest(c, ind)
	}
	s, tail := list[0], list[1:]
	next := func(c *mctx, ind string) string { return t.block(tail, c, ind, rest) }
	t.cur = c
	if t.syncOnly(s) {
		t.notes = append(t.notes, "skipped (synchronisation only): "+strings.Join(strings.Fields(t.src(s)), " "))
		return next(c, ind)
	}
	if call, ok := t.logOnly(s); ok {
		// the arguments are evaluated (a nil dereference among them would panic), the call itself is skipped
		for _, a := range call.Args {
			if bl, ok := a.(*ast.BasicLit); ok && bl.Kind == token.STRING {
				continue
			}
			t.expr(a)
		}
		if n := "skipped (logging only): " + strings.Join(strings.Fields(t.src(s)), " "); !inList(t.notes, n) {
			t.notes = append(t.notes, n) // (a statement after an early return is translated once per path)
		}
		return t.flushChecks(ind) + next(c, ind)
	}
	switch x := s.(type) {
	case *ast.ReturnStmt:
		var rs []string
		if len(x.Results) == 1 && len(t.resTy) == 2 && t.tg.Params != nil {
			// `return f(x)` forwarding the two results of a call
			if call, ok := x.Results[0].(*ast.CallExpr); ok {
				if pre, val, ok2, valTy, ok := t.twoResults(call, c, ind); ok && valTy == t.resTy[0] && t.resTy[1] == "Bool" {
					return pre + ind + "(" + tupleOf(c.state) + ", (" + val + ", " + ok2 + "), inb)\n"
				}
			}
			t.fail(s, "return of a call")
			return ""
		}
		if len(x.Results) == 0 {
			rs = c.results
		} else {
			for i, r := range x.Results {
				if id, ok := r.(*ast.Ident); ok && id.Name == "nil" && i < len(t.resTy) && t.tg.Ptr[t.resTy[i]] != "" {
					t.use(fmt.Sprintf("(%s : %s)", t.tg.Ptr[t.resTy[i]], t.resTy[i]))
					rs = append(rs, t.tg.Ptr[t.resTy[i]]) // nil pointer
					continue
				}
				if i < len(t.resTy) && strings.HasPrefix(t.resTy[i], "Option ") && t.tg.Acc2 != nil {
					// a result of Go type `*X` modelled as `Option X`: `nil` is none, `&v` (the address of a local value v : X,
					// which the method does not write afterwards: it is returned at once) is `some v`; nothing else
					inner := strings.TrimPrefix(t.resTy[i], "Option ")
					if id, ok := r.(*ast.Ident); ok && id.Name == "nil" {
						rs = append(rs, t.typed("(none : "+t.resTy[i]+")", t.resTy[i]))
						continue
					}
					if ue, ok := r.(*ast.UnaryExpr); ok && ue.Op == token.AND {
						if id, ok := ue.X.(*ast.Ident); ok && id.Name != "_" && id.Name != "nil" {
							v := t.id(id.Name)
							if c.scope[v] && c.local != nil && t.vtype[v] == inner && !inList(c.results, v) {
								rs = append(rs, t.typed("(some "+v+")", t.resTy[i]))
								continue
							}
						}
					}
					t.fail(s, "pointer result outside the forms `nil` / `&local`")
					return ""
				}
				if id, ok := r.(*ast.Ident); ok && id.Name == "nil" && i < len(t.resTy) && t.tg.Elem[t.resTy[i]] != "" {
					rs = append(rs, t.typed("([] : "+t.resTy[i]+")", t.resTy[i])) // nil slice
					continue
				}
				if t.tg.Bytes && t.aliasOfField(r) && !t.ptrRecv {
					// (a value receiver: no later write of this method can reach the caller's copy through the alias)
					if n := "the result of `" + t.src(s) + "` shares its backing array with the field: the value returned is exact, a caller that writes through it changes the field (outside the functional reading)"; !inList(t.notes, n) {
						t.notes = append(t.notes, n)
					}
				} else if t.tg.Elem != nil && t.aliasOfField(r) {
					t.fail(s, "returns a slice that aliases a field")
					return ""
				}
				if id, ok := r.(*ast.Ident); ok && id.Name == "nil" && i < len(t.resTy) && t.resTy[i] == "Bool" {
					rs = append(rs, "false") // nil error
					continue
				}
				e := t.expr(r)
				if t.tg.Params != nil && (i >= len(t.resTy) || t.vtype[e] != t.resTy[i]) {
					t.fail(s, "type of the returned value")
				}
				rs = append(rs, e)
			}
		}
		if len(rs) == 0 {
			rs = []string{"()"}
		}
		pre := t.flushChecks(ind)
		return pre + ind + "(" + tupleOf(c.state) + ", " + tupleOf(rs) + ", inb)\n"
	case *ast.AssignStmt:
		if len(x.Lhs) == 2 && len(x.Rhs) == 1 && x.Tok == token.DEFINE && t.tg.Params != nil {
			// v, ok := recv.<ext>.<M>(arg)  or  v, ok := recv.<method translated before>(args); either name may be `_`
			v0, ok0 := x.Lhs[0].(*ast.Ident)
			v1, ok1 := x.Lhs[1].(*ast.Ident)
			call, okc := x.Rhs[0].(*ast.CallExpr)
			if ok0 && ok1 && okc && t.tg.Bytes {
				if pre, tys, ok := t.pkgCall(call, ind); ok {
					c = c.clone()
					out := pre
					for k, v := range []*ast.Ident{v0, v1} {
						if v.Name != "_" {
							a := t.declare(c, v.Name)
							t.vtype[a] = tys[k]
							out += fmt.Sprintf("%slet %s := r'.%d\n", ind, a, k+1)
						}
					}
					return out + next(c, ind)
				}
			}
			if ok0 && ok1 && okc {
				if pre, val, ok2, valTy, ok := t.twoResults(call, c, ind); ok {
					c = c.clone()
					out := pre
					if v0.Name != "_" {
						a := t.declare(c, v0.Name)
						t.vtype[a] = valTy
						out += fmt.Sprintf("%slet %s := %s\n", ind, a, val)
					}
					if v1.Name != "_" {
						b := t.declare(c, v1.Name)
						t.vtype[b] = "Bool"
						out += fmt.Sprintf("%slet %s := %s\n", ind, b, ok2)
					}
					return out + next(c, ind)
				}
			}
			t.fail(s, "two-value assignment")
			return ""
		}
		if len(x.Lhs) == 2 && len(x.Rhs) == 1 && x.Tok == token.ASSIGN && t.tg.Comp != nil {
			// a, b = recv.<ext>.<M>(arg) into two variables in scope (named results) of the right types
			v0, ok0 := x.Lhs[0].(*ast.Ident)
			v1, ok1 := x.Lhs[1].(*ast.Ident)
			call, okc := x.Rhs[0].(*ast.CallExpr)
			if ok0 && ok1 && okc && v0.Name != "_" && v1.Name != "_" && v0.Name != v1.Name {
				a, b := t.id(v0.Name), t.id(v1.Name)
				if pre, val, ok2, valTy, ok := t.twoResults(call, c, ind); ok && c.scope[a] && c.scope[b] &&
					t.vtype[a] == valTy && t.vtype[b] == "Bool" {
					return pre + fmt.Sprintf("%slet %s := %s\n%slet %s := %s\n", ind, a, val, ind, b, ok2) + next(c, ind)
				}
			}
			t.fail(s, "two-value assignment")
			return ""
		}
		if len(x.Lhs) == 2 && len(x.Rhs) == 1 && x.Tok == token.DEFINE {
			// v, ok := s.<ext>.<M>(arg)
			if call, ok := x.Rhs[0].(*ast.CallExpr); ok && len(call.Args) == 1 {
				if se, ok := call.Fun.(*ast.SelectorExpr); ok {
					if f, ok := t.isField(se.X); ok {
						if sig, ok := t.tg.Ext[f+"."+se.Sel.Name]; ok {
							v0, ok0 := x.Lhs[0].(*ast.Ident)
							v1, ok1 := x.Lhs[1].(*ast.Ident)
							if ok0 && ok1 {
								fn := f + "_" + se.Sel.Name
								t.use(fmt.Sprintf("(%s : %s → %s × Bool)", fn, sig[0], sig[1]))
								arg := t.expr(call.Args[0])
								c = c.clone()
								a, b := leanIdent(v0.Name), leanIdent(v1.Name)
								c.scope[a], c.scope[b] = true, true
								t.vtype[a], t.vtype[b] = sig[1], "Bool"
								return fmt.Sprintf("%slet r' := (%s %s)\n%slet %s := r'.1\n%slet %s := r'.2\n", ind, fn, arg, ind, a, ind, b) + next(c, ind)
							}
						}
					}
				}
			}
		}
		if len(x.Lhs) != 1 || len(x.Rhs) != 1 {
			t.fail(s, "multi-assign")
			return ""
		}
		if ie, ok := x.Lhs[0].(*ast.IndexExpr); ok && t.tg.Bytes {
			line, ok := t.byteIndexAssign(ie, x, ind)
			if !ok {
				t.fail(s, "indexed assignment")
				return ""
			}
			return line + next(c, ind)
		}
		if ie, ok := x.Lhs[0].(*ast.IndexExpr); ok && x.Tok == token.ASSIGN {
			f, ok := t.isField(ie.X)
			if !ok || !t.modelled(f) || t.ftype[f] != "[]any" {
				t.fail(s, "indexed assignment")
				return ""
			}
			i := t.expr(ie.Index)
			v := t.expr(x.Rhs[0])
			fv := fieldVar(t.recv, f)
			t.checks = append(t.checks, fmt.Sprintf("(decide (0 ≤ %s ∧ %s < (%s.length : Int)))", i, i, fv))
			pre := t.flushChecks(ind)
			return pre + fmt.Sprintf("%slet %s := (setI %s %s %s)\n", ind, fv, fv, i, v) + next(c, ind)
		}
		v, ok := t.lhsVar(x.Lhs[0])
		if !ok {
			t.fail(s, "assign target")
			return ""
		}
		if t.tg.Elem != nil {
			if why := t.listAssignCheck(x); why != "" {
				t.fail(s, why)
				return ""
			}
		}
		r := t.expr(x.Rhs[0])
		t.mutOK = false
		if id, isId := x.Lhs[0].(*ast.Ident); isId && t.tg.Params != nil {
			if id.Name == "_" {
				t.fail(s, "assignment to the blank identifier")
				return ""
			}
			if t.vtype[r] == "" {
				t.fail(s, "type of the assigned value")
				return ""
			}
			if x.Tok == token.DEFINE {
				c = c.clone()
				v = t.declare(c, id.Name)
				t.vtype[v] = t.vtype[r]
			} else if t.vtype[v] != t.vtype[r] {
				t.fail(s, "assignment changes the type")
				return ""
			}
		} else if t.tg.Params != nil && t.vtype[v] != t.vtype[r] {
			t.fail(s, "assignment changes the type")
			return ""
		}
		switch x.Tok {
		case token.DEFINE:
			c = c.clone()
			c.scope[v] = true
		case token.ASSIGN:
		case token.ADD_ASSIGN:
			r = "(" + v + " + " + r + ")"
		case token.SUB_ASSIGN:
			r = "(" + v + " - " + r + ")"
		default:
			t.fail(s, "assignment operator")
			return ""
		}
		pre := t.flushChecks(ind)
		return pre + fmt.Sprintf("%slet %s := %s\n", ind, v, r) + next(c, ind)
	case *ast.IncDecStmt:
		v, ok := t.lhsVar(x.X)
		if !ok {
			t.fail(s, "inc/dec target")
			return ""
		}
		if t.tg.Bytes && t.vtype[v] != "Int" {
			t.fail(s, "inc/dec of a value that is not an int")
			return ""
		}
		op := "+"
		if x.Tok == token.DEC {
			op = "-"
		}
		return fmt.Sprintf("%slet %s := (%s %s 1)\n", ind, v, v, op) + next(c, ind)
	case *ast.IfStmt:
		if x.Init != nil {
			if t.tg.Params == nil {
				t.fail(s, "if with init")
				return ""
			}
			// `if init; cond {…} else {…}` is the block `{ init; if cond {…} else {…} }`
			saved := copyRen(t.ren)
			plain := *x
			plain.Init = nil
			return t.block([]ast.Stmt{x.Init, &plain}, c.nested(), ind, func(_ *mctx, ind string) string {
				t.ren = copyRen(saved)
				return next(c, ind)
			})
		}
		cnd, idiom := t.nilInitIdiom(x)
		if !idiom {
			cnd = t.cond(x.Cond)
		}
		pre := t.flushChecks(ind)
		var elseList []ast.Stmt
		if x.Else != nil {
			eb, ok := x.Else.(*ast.BlockStmt)
			if ei, isIf := x.Else.(*ast.IfStmt); isIf && t.tg.Params != nil {
				elseList = []ast.Stmt{ei} // else if
			} else if !ok {
				t.fail(s, "else-if")
				return ""
			} else {
				elseList = eb.List
			}
		}
		if t.tg.Params != nil {
			// as below, with block scopes: what follows the `if` sees the variables of the enclosing block again
			saved := copyRen(t.ren)
			after := func(_ *mctx, ind string) string {
				t.ren = copyRen(saved)
				return next(c, ind)
			}
			if containsReturn(x.Body.List) || containsReturn(elseList) {
				th := t.block(x.Body.List, c.nested(), ind+"  ", after)
				t.ren = copyRen(saved)
				el := t.block(elseList, c.nested(), ind+"  ", after)
				t.ren = copyRen(saved)
				return pre + fmt.Sprintf("%sif %s then\n%s%selse\n%s", ind, cnd, th, ind, el)
			}
			vars := t.assignedVars(append(append([]ast.Stmt{}, x.Body.List...), elseList...), c.scope)
			tup := tupleOf(vars)
			if len(vars) == 0 {
				tup = "()" // nothing to merge; the branches are still translated so that anything unsupported in them is reported
			}
			fin := func(_ *mctx, ind string) string { return ind + tup + "\n" }
			th := t.block(x.Body.List, c.nested(), ind+"    ", fin)
			t.ren = copyRen(saved)
			el := t.block(elseList, c.nested(), ind+"    ", fin)
			t.ren = copyRen(saved)
			var sb strings.Builder
			sb.WriteString(pre)
			switch len(vars) {
			case 0:
			case 1:
				fmt.Fprintf(&sb, "%slet %s :=\n%s  if %s then\n%s%s  else\n%s", ind, vars[0], ind, cnd, th, ind, el)
			default:
				fmt.Fprintf(&sb, "%slet p' :=\n%s  if %s then\n%s%s  else\n%s", ind, ind, cnd, th, ind, el)
				for k, v := range vars {
					fmt.Fprintf(&sb, "%slet %s := %s\n", ind, v, proj("p'", k, len(vars)))
				}
			}
			return sb.String() + next(c, ind)
		}
		if containsReturn(x.Body.List) || containsReturn(elseList) {
			// early return: the continuation goes into every branch that falls through
			th := t.block(x.Body.List, c.clone(), ind+"  ", next)
			el := t.block(elseList, c.clone(), ind+"  ", next)
			return pre + fmt.Sprintf("%sif %s then\n%s%selse\n%s", ind, cnd, th, ind, el)
		}
		vars := t.assignedVars(append(append([]ast.Stmt{}, x.Body.List...), elseList...), c.scope)
		if len(vars) == 0 {
			return pre + next(c, ind)
		}
		tup := tupleOf(vars)
		fin := func(_ *mctx, ind string) string { return ind + tup + "\n" }
		th := t.block(x.Body.List, c.clone(), ind+"    ", fin)
		el := t.block(elseList, c.clone(), ind+"    ", fin)
		var sb strings.Builder
		sb.WriteString(pre)
		if len(vars) == 1 {
			fmt.Fprintf(&sb, "%slet %s :=\n%s  if %s then\n%s%s  else\n%s", ind, vars[0], ind, cnd, th, ind, el)
		} else {
			fmt.Fprintf(&sb, "%slet p' :=\n%s  if %s then\n%s%s  else\n%s", ind, ind, cnd, th, ind, el)
			for k, v := range vars {
				fmt.Fprintf(&sb, "%slet %s := %s\n", ind, v, proj("p'", k, len(vars)))
			}
		}
		return sb.String() + next(c, ind)
	}
	if es, ok := s.(*ast.ExprStmt); ok && t.tg.Bytes {
		if call, ok := es.X.(*ast.CallExpr); ok {
			if line, ok := t.sibStmt(call, c, ind); ok {
				return line + next(c, ind)
			}
		}
		t.fail(s, "call statement")
		return ""
	}
	if rs, ok := s.(*ast.RangeStmt); ok && t.tg.Elem != nil {
		if line, ok := t.filterLoop(rs, c, ind); ok {
			return line + next(c, ind)
		}
		t.fail(s, "loop outside the shape `for _, t := range xs { if COND { ys = append(ys, t) } }`")
		return ""
	}
	t.fail(s, "statement")
	return ""
}

// ---- slice forms (targets with Elem; proof agent S17) ----
//
// A slice is the Lean list of its elements; `nil` and an empty slice are both `[]`.  That is exact only while no
// two live slices share a backing array and nothing tells nil from empty, so the subset is kept to the idioms that
// guarantee it: `X = append(X, e)`, `X = slices.DeleteFunc(X, f)` (the result replaces the argument), no plain
// assignment of one slice variable to another, no return of a field's slice, `== nil` only in
// `if X == nil { X = make([]E, 0, cap) }` (an empty list either way).  `make` with a negative size panics in Go:
// that is a check of the `inb` flag (in the nil-initialisation the check is also made for an empty non-nil X,
// where Go does not evaluate the size: the flag errs on the safe side).  Closures are `func(p E) bool { return
// COND }` only; their parameter must not have the name of a variable in scope.

func (t *mtr) isList(ty string) bool { return ty != "" && t.tg.Elem[ty] != "" }

func unparen(e ast.Expr) ast.Expr {
	for {
		p, ok := e.(*ast.ParenExpr)
		if !ok {
			return e
		}
		e = p.X
	}
}

// builtin: the identifier `name`, not redeclared in the file
func builtin(e ast.Expr, name string) bool {
	id, ok := e.(*ast.Ident)
	return ok && id.Name == name && id.Obj == nil
}

// slicesFn: `slices.<name>` of the standard package
func (t *mtr) slicesFn(e ast.Expr, name string) bool {
	se, ok := e.(*ast.SelectorExpr)
	return ok && t.slicesPkg && builtin(se.X, "slices") && se.Sel.Name == name
}

// fieldRead: `x.F` for a variable x of an opaque type T with FieldAcc["T.F"]
func (t *mtr) fieldRead(x *ast.SelectorExpr) (string, bool) {
	id, ok := x.X.(*ast.Ident)
	if t.tg.FieldAcc == nil || !ok || id.Name == t.recv {
		return "", false
	}
	v := t.id(id.Name)
	ty := t.vtype[v]
	rty, ok := t.tg.FieldAcc[ty+"."+x.Sel.Name]
	if !ok || ty == "" {
		return "", false
	}
	fn := ty + "_" + x.Sel.Name
	t.use(fmt.Sprintf("(%s : %s → %s)", fn, ty, rty))
	t.derefCheck(v) // (a field read through a nil pointer panics; no-op for value types)
	return t.typed("("+fn+" "+v+")", rty), true
}

// bound: the Go bool expression `cond` with the Go variable `name` bound to a value of type elem, as
// `decide COND` under the Lean binder that is returned
func (t *mtr) bound(name, elem string, cond ast.Expr) (string, string, bool) {
	v := leanIdent(name)
	if name == "_" || t.cur == nil || t.cur.scope[v] || inList(t.paramNames(), v) || v == "inb" || v == "r'" || v == "p'" {
		return "", "", false
	}
	savedRen, hadRen := t.ren[name]
	delete(t.ren, name)
	savedTy, hadTy := t.vtype[v]
	t.vtype[v] = elem
	n := len(t.checks)
	c := t.cond(cond)
	ok := len(t.checks) == n // a panic check under the binder cannot be lifted out of it
	if hadRen {
		t.ren[name] = savedRen
	}
	if hadTy {
		t.vtype[v] = savedTy
	} else {
		delete(t.vtype, v)
	}
	return v, "(decide " + c + ")", ok
}

// closure: `func(p E) bool { return COND }`
func (t *mtr) closure(e ast.Expr, elem string) (string, string, bool) {
	fl, ok := e.(*ast.FuncLit)
	if !ok {
		return "", "", false
	}
	ps, rs := fl.Type.Params.List, fl.Type.Results
	if len(ps) != 1 || len(ps[0].Names) != 1 || t.lt(t.src(ps[0].Type)) != elem {
		return "", "", false
	}
	if rs == nil || len(rs.List) != 1 || len(rs.List[0].Names) != 0 || t.src(rs.List[0].Type) != "bool" {
		return "", "", false
	}
	if len(fl.Body.List) != 1 {
		return "", "", false
	}
	ret, ok := fl.Body.List[0].(*ast.ReturnStmt)
	if !ok || len(ret.Results) != 1 {
		return "", "", false
	}
	return t.bound(ps[0].Names[0].Name, elem, ret.Results[0])
}

func isZeroLit(e ast.Expr) bool {
	bl, ok := e.(*ast.BasicLit)
	return ok && bl.Kind == token.INT && bl.Value == "0"
}

// listCall: len, make, slices.ContainsFunc and (inside `X = …(X, …)` only) append, slices.DeleteFunc
func (t *mtr) listCall(x *ast.CallExpr) (string, bool) {
	mut := t.mutOK
	t.mutOK = false
	switch {
	case builtin(x.Fun, "len") && len(x.Args) == 1:
		a := t.expr(x.Args[0])
		if t.isList(t.vtype[a]) {
			return t.typed("("+a+".length : Int)", "Int"), true
		}
	case builtin(x.Fun, "make") && len(x.Args) == 3 && isZeroLit(x.Args[1]):
		// make([]E, 0, cap): an empty slice; panics if cap < 0
		if at, ok := x.Args[0].(*ast.ArrayType); ok && at.Len == nil {
			if ty := t.lt(t.src(at)); t.isList(ty) {
				n := t.expr(x.Args[2])
				if t.vtype[n] != "Int" {
					return "", false
				}
				t.checks = append(t.checks, fmt.Sprintf("(decide (0 ≤ %s))", n))
				return t.typed("([] : "+ty+")", ty), true
			}
		}
	case t.slicesFn(x.Fun, "ContainsFunc") && len(x.Args) == 2:
		xs := t.expr(x.Args[0])
		if ty := t.vtype[xs]; t.isList(ty) {
			if v, d, ok := t.closure(x.Args[1], t.tg.Elem[ty]); ok {
				return t.typed("("+xs+".any (fun "+v+" => "+d+"))", "Bool"), true
			}
		}
	case t.slicesFn(x.Fun, "DeleteFunc") && len(x.Args) == 2 && mut:
		xs := t.expr(x.Args[0])
		if ty := t.vtype[xs]; t.isList(ty) {
			if v, d, ok := t.closure(x.Args[1], t.tg.Elem[ty]); ok {
				return t.typed("("+xs+".filter (fun "+v+" => !"+d+"))", ty), true
			}
		}
	case builtin(x.Fun, "append") && len(x.Args) == 2 && mut && x.Ellipsis != token.NoPos && t.tg.Bytes:
		// append(X, make([]byte, n)...): n zero bytes; make panics if n < 0
		xs := t.expr(x.Args[0])
		ty := t.vtype[xs]
		mk, ok := x.Args[1].(*ast.CallExpr)
		if !ok || !t.isList(ty) || t.tg.Elem[ty] != "Nat" || !builtin(mk.Fun, "make") || len(mk.Args) != 2 || mk.Ellipsis != token.NoPos {
			return "", false
		}
		if at, ok := mk.Args[0].(*ast.ArrayType); ok && at.Len == nil && t.lt(t.src(at)) == ty {
			n := t.expr(mk.Args[1])
			if t.vtype[n] != "Int" {
				return "", false
			}
			t.checks = append(t.checks, fmt.Sprintf("(decide (0 ≤ %s))", n))
			return t.typed("("+xs+" ++ List.replicate "+n+".toNat (0 : Nat))", ty), true
		}
	case builtin(x.Fun, "append") && len(x.Args) == 2 && mut:
		xs := t.expr(x.Args[0])
		if ty := t.vtype[xs]; t.isList(ty) {
			y := t.expr(x.Args[1])
			if x.Ellipsis == token.NoPos && t.vtype[y] == t.tg.Elem[ty] {
				return t.typed("("+xs+" ++ ["+y+"])", ty), true
			}
		}
	}
	return "", false
}

// isListVar: a variable or modelled field of slice type
func (t *mtr) isListVar(e ast.Expr) bool {
	e = unparen(e)
	if id, ok := e.(*ast.Ident); ok {
		return t.isList(t.vtype[t.id(id.Name)])
	}
	if f, ok := t.isField(e); ok && t.modelled(f) {
		return t.isList(t.vtype[fieldVar(t.recv, f)])
	}
	return false
}

// aliasOfField: a modelled field of slice type
func (t *mtr) aliasOfField(e ast.Expr) bool {
	f, ok := t.isField(unparen(e))
	return ok && t.modelled(f) && t.isList(t.vtype[fieldVar(t.recv, f)])
}

// listAssignCheck: the rules that keep slices values (see above); "" if the assignment is fine
func (t *mtr) listAssignCheck(x *ast.AssignStmt) string {
	rhs := unparen(x.Rhs[0])
	if t.isListVar(rhs) {
		return "assignment makes two slices share their elements"
	}
	if call, ok := rhs.(*ast.CallExpr); ok && (builtin(call.Fun, "append") || t.slicesFn(call.Fun, "DeleteFunc")) {
		if x.Tok != token.ASSIGN || len(call.Args) != 2 || t.src(x.Lhs[0]) != t.src(call.Args[0]) {
			return "append / slices.DeleteFunc whose result does not replace its first argument"
		}
		t.mutOK = true
	}
	return ""
}

// nilInitIdiom: `if X == nil { X = make([]E, 0, cap) }` — X is an empty list afterwards if it was one before
func (t *mtr) nilInitIdiom(x *ast.IfStmt) (string, bool) {
	if t.tg.Elem == nil || x.Init != nil || x.Else != nil || len(x.Body.List) != 1 {
		return "", false
	}
	be, ok := x.Cond.(*ast.BinaryExpr)
	if !ok || be.Op != token.EQL || !builtin(be.Y, "nil") || !t.isListVar(be.X) {
		return "", false
	}
	as, ok := x.Body.List[0].(*ast.AssignStmt)
	if !ok || as.Tok != token.ASSIGN || len(as.Lhs) != 1 || len(as.Rhs) != 1 || t.src(as.Lhs[0]) != t.src(be.X) {
		return "", false
	}
	call, ok := as.Rhs[0].(*ast.CallExpr)
	if !ok || !builtin(call.Fun, "make") || len(call.Args) != 3 || !isZeroLit(call.Args[1]) {
		return "", false
	}
	return "(" + t.expr(be.X) + ".isEmpty = true)", true
}

// filterLoop: `for _, v := range xs { if COND { ys = append(ys, v) } }`  ↦  ys := ys ++ xs.filter (fun v => COND)
func (t *mtr) filterLoop(rs *ast.RangeStmt, c *mctx, ind string) (string, bool) {
	val, okv := rs.Value.(*ast.Ident)
	if !builtinBlank(rs.Key) || !okv || val.Name == "_" || rs.Tok != token.DEFINE || len(rs.Body.List) != 1 {
		return "", false
	}
	ifs, ok := rs.Body.List[0].(*ast.IfStmt)
	if !ok || ifs.Init != nil || ifs.Else != nil || len(ifs.Body.List) != 1 {
		return "", false
	}
	as, ok := ifs.Body.List[0].(*ast.AssignStmt)
	if !ok || as.Tok != token.ASSIGN || len(as.Lhs) != 1 || len(as.Rhs) != 1 {
		return "", false
	}
	ys, ok := as.Lhs[0].(*ast.Ident)
	call, okc := as.Rhs[0].(*ast.CallExpr)
	if !ok || !okc || !builtin(call.Fun, "append") || len(call.Args) != 2 || call.Ellipsis != token.NoPos {
		return "", false
	}
	a0, ok0 := call.Args[0].(*ast.Ident)
	a1, ok1 := call.Args[1].(*ast.Ident)
	if !ok0 || !ok1 || a0.Name != ys.Name || a1.Name != val.Name || ys.Name == val.Name || ys.Name == "_" {
		return "", false
	}
	yv := t.id(ys.Name)
	xs := t.expr(rs.X)
	ty := t.vtype[xs]
	if !t.isList(ty) || !c.scope[yv] || t.vtype[yv] != ty {
		return "", false
	}
	mentions := false
	ast.Inspect(ifs.Cond, func(n ast.Node) bool {
		if id, ok := n.(*ast.Ident); ok && id.Name == ys.Name {
			mentions = true
		}
		return true
	})
	if mentions {
		return "", false // the condition would see the list grow
	}
	t.cur = c
	v, d, ok := t.bound(val.Name, t.tg.Elem[ty], ifs.Cond)
	if !ok {
		return "", false
	}
	return t.flushChecks(ind) + fmt.Sprintf("%slet %s := (%s ++ %s.filter (fun %s => %s))\n", ind, yv, yv, xs, v, d), true
}

// ---- byte forms (targets with Bytes; proof agent S18: the BLS bit-field) ----
//
// A byte is a Lean `Nat` below 256 (every value of Lean type `Nat` built here is: elements of the `[]byte` field are
// assumed so, literals are checked, `&` and `|` keep the bound, `<<` is followed by `% 256` — Go truncates a byte
// shift to 8 bits).  Only `&`, `|`, `<<` and comparisons are byte operations; `+`, `^`, `>>`, `&^`, conversions are
// outside.  An untyped constant (`1`, `1 << n`) is a byte where Go's typing rules make it one: as the other operand
// of `&`, `|`, a comparison with a byte, or the right side of an assignment to a byte element (a non-constant shift
// `1 << n` takes the type the `1` would have there).  A shift by a negative count panics: a check of the flag.
// `s[i]` is `getB s i` with the check `0 ≤ i < len`; `s[i] op= v` is `setB s i (getB s i op v)`.
// Calls of methods of the same receiver translated before: a value-receiver method with one result inside an
// expression (the fields are unchanged, its flag is a check); a method as a statement (a pointer-receiver callee's
// fields replace the caller's).  A method with a VALUE receiver works on a copy of the struct that shares the slice's
// backing array: such a method is translated only if it writes to no field and calls no pointer-receiver method.
// The slice rules of the "slice forms" apply (no two live slices share elements), except that a value-receiver
// method may return the field itself (a note says so).

// isUntypedConst: an integer literal, or `c << n` with c one (Go gives a non-constant shift the type c would have)
func isUntypedConst(e ast.Expr) bool {
	switch x := unparen(e).(type) {
	case *ast.BasicLit:
		return x.Kind == token.INT
	case *ast.BinaryExpr:
		return x.Op == token.SHL && isUntypedConst(x.X)
	}
	return false
}

// asByte: an expression in a context that makes it a byte
func (t *mtr) asByte(e ast.Expr) string {
	switch x := e.(type) {
	case *ast.ParenExpr:
		return t.typed("("+t.asByte(x.X)+")", "Nat")
	case *ast.BasicLit:
		if x.Kind == token.INT {
			if n, err := strconv.ParseInt(x.Value, 0, 64); err == nil && 0 <= n && n < 256 {
				return t.typed(fmt.Sprintf("(%d : Nat)", n), "Nat")
			}
		}
		return t.fail(e, "byte literal")
	case *ast.BinaryExpr:
		if x.Op == token.SHL && isUntypedConst(x.X) {
			l := t.asByte(x.X)
			return t.shl(e, l, x.Y)
		}
	}
	if isUntypedConst(e) {
		return t.fail(e, "untyped constant")
	}
	s := t.expr(e)
	if t.vtype[s] != "Nat" {
		return t.fail(e, "a value of type '"+t.vtype[s]+"' where a byte is needed")
	}
	return s
}

// shl: byte `l << count`
func (t *mtr) shl(e ast.Expr, l string, count ast.Expr) string {
	n := t.expr(count)
	if t.vtype[n] != "Int" {
		return t.fail(e, "shift count of type '"+t.vtype[n]+"'")
	}
	if chk := fmt.Sprintf("(decide (0 ≤ %s))", n); !inList(t.checks, chk) {
		t.checks = append(t.checks, chk)
	}
	return t.typed("(("+l+" <<< "+n+".toNat) % 256)", "Nat")
}

// byteBin: `&`, `|`, `<<`
func (t *mtr) byteBin(x *ast.BinaryExpr) string {
	if x.Op == token.SHL {
		if isUntypedConst(x.X) {
			return t.fail(x, "shift of an untyped constant outside a byte context")
		}
		l := t.expr(x.X)
		if t.vtype[l] != "Nat" {
			return t.fail(x, "shift of a value of type '"+t.vtype[l]+"'")
		}
		return t.shl(x, l, x.Y)
	}
	cx, cy := isUntypedConst(x.X), isUntypedConst(x.Y)
	if cx && cy {
		return t.fail(x, "bit operation on two untyped constants")
	}
	var l, r string
	if cx {
		r = t.asByte(x.Y)
		l = t.asByte(x.X)
	} else {
		l = t.asByte(x.X)
		r = t.asByte(x.Y)
	}
	op := "&&&"
	if x.Op == token.OR {
		op = "|||"
	}
	return t.typed("("+l+" "+op+" "+r+")", "Nat")
}

// byteField: a modelled field of type []byte
func (t *mtr) byteField(e ast.Expr) (string, bool) {
	f, ok := t.isField(e)
	if !ok || !t.modelled(f) || t.vtype[fieldVar(t.recv, f)] != "List Nat" {
		return "", false
	}
	return fieldVar(t.recv, f), true
}

func (t *mtr) rangeCheck(fv, i string) {
	if chk := fmt.Sprintf("(decide (0 ≤ %s ∧ %s < (%s.length : Int)))", i, i, fv); !inList(t.checks, chk) {
		t.checks = append(t.checks, chk)
	}
}

// byteIndex: `recv.data[i]`
func (t *mtr) byteIndex(x *ast.IndexExpr) (string, bool) {
	fv, ok := t.byteField(x.X)
	if !ok {
		return "", false
	}
	i := t.expr(x.Index)
	if t.vtype[i] != "Int" {
		return "", false
	}
	t.rangeCheck(fv, i)
	return t.typed(fmt.Sprintf("(getB %s %s)", fv, i), "Nat"), true
}

// byteIndexAssign: `recv.data[i] = v`, `|= v`, `&= v`
func (t *mtr) byteIndexAssign(ie *ast.IndexExpr, x *ast.AssignStmt, ind string) (string, bool) {
	fv, ok := t.byteField(ie.X)
	if !ok || len(x.Rhs) != 1 {
		return "", false
	}
	i := t.expr(ie.Index)
	if t.vtype[i] != "Int" {
		return "", false
	}
	v := t.asByte(x.Rhs[0])
	switch x.Tok {
	case token.ASSIGN:
	case token.OR_ASSIGN:
		v = fmt.Sprintf("((getB %s %s) ||| %s)", fv, i, v)
	case token.AND_ASSIGN:
		v = fmt.Sprintf("((getB %s %s) &&& %s)", fv, i, v)
	default:
		return "", false
	}
	t.rangeCheck(fv, i)
	return t.flushChecks(ind) + fmt.Sprintf("%slet %s := (setB %s %s %s)\n", ind, fv, fv, i, v), true
}

// sibApp: the application of a method of the receiver translated before to the current fields and the arguments
func (t *mtr) sibApp(call *ast.CallExpr, state []string) (string, sibSig, bool) {
	se, ok := call.Fun.(*ast.SelectorExpr)
	if !ok || call.Ellipsis != token.NoPos {
		return "", sibSig{}, false
	}
	id, ok := se.X.(*ast.Ident)
	if !ok || id.Name != t.recv {
		return "", sibSig{}, false
	}
	sig, ok := t.sibB[se.Sel.Name]
	if !ok || len(sig.args) != len(call.Args) {
		return "", sibSig{}, false
	}
	if sig.ptr && !t.ptrRecv {
		t.fail(call, "a value-receiver method calls a pointer-receiver method on its copy")
		return "", sibSig{}, false
	}
	app := "(" + t.tg.Recv + "_" + se.Sel.Name + " " + strings.Join(state, " ")
	for k, a := range call.Args {
		as := t.expr(a)
		if t.vtype[as] != sig.args[k] {
			t.fail(call, "argument type of "+se.Sel.Name)
			return "", sibSig{}, false
		}
		app += " " + as
	}
	return app + ")", sig, true
}

// sibExpr: `recv.m(args)` inside an expression: a value-receiver method with one result
func (t *mtr) sibExpr(call *ast.CallExpr) (string, bool) {
	if t.cur == nil {
		return "", false
	}
	app, sig, ok := t.sibApp(call, t.cur.state)
	if !ok || sig.ptr || len(sig.res) != 1 {
		return "", false
	}
	if chk := app + ".2.2"; !inList(t.checks, chk) {
		t.checks = append(t.checks, chk)
	}
	return t.typed(app+".2.1", sig.res[0]), true
}

// sibStmt: `recv.m(args)` as a statement
func (t *mtr) sibStmt(call *ast.CallExpr, c *mctx, ind string) (string, bool) {
	app, sig, ok := t.sibApp(call, c.state)
	if !ok {
		return "", false
	}
	out := t.flushChecks(ind) + fmt.Sprintf("%slet r' := %s\n", ind, app)
	if sig.ptr {
		for k, v := range c.state {
			out += fmt.Sprintf("%slet %s := %s\n", ind, v, proj("r'.1", k, len(c.state)))
		}
	}
	return out + fmt.Sprintf("%slet inb : Bool := inb && r'.2.2\n", ind), true
}

// pkgCall: `a, b := f(x)` for a package-level function of the file translated by the first translator
func (t *mtr) pkgCall(call *ast.CallExpr, ind string) (string, []string, bool) {
	id, ok := call.Fun.(*ast.Ident)
	if !ok || id.Obj == nil || id.Obj.Kind != ast.Fun || call.Ellipsis != token.NoPos {
		return "", nil, false
	}
	pf, ok := t.tg.PkgFn[id.Name]
	fd, isFd := id.Obj.Decl.(*ast.FuncDecl)
	if !ok || !isFd || fd.Recv != nil || len(pf.Args) != len(call.Args) || len(pf.Res) != 2 {
		return "", nil, false
	}
	// the Go signature must be the one the table assumes
	var ps, rs []string
	for _, f := range fd.Type.Params.List {
		for range f.Names {
			ps = append(ps, t.lt(t.src(f.Type)))
		}
	}
	if fd.Type.Results != nil {
		for _, f := range fd.Type.Results.List {
			n := len(f.Names)
			if n == 0 {
				n = 1
			}
			for k := 0; k < n; k++ {
				rs = append(rs, t.lt(t.src(f.Type)))
			}
		}
	}
	if strings.Join(ps, ",") != strings.Join(pf.Args, ",") || strings.Join(rs, ",") != strings.Join(pf.Res, ",") {
		return "", nil, false
	}
	app := "(" + pf.Lean
	for k, a := range call.Args {
		as := t.expr(a)
		if t.vtype[as] != pf.Args[k] {
			return "", nil, false
		}
		app += " " + as
	}
	return t.flushChecks(ind) + fmt.Sprintf("%slet r' := %s)\n", ind, app), pf.Res, true
}

// writesReceiver: an assignment to a field of the receiver (or to an element of one), or `++`/`--` on one
func (t *mtr) writesReceiver(body *ast.BlockStmt) bool {
	found := false
	isRecvPart := func(e ast.Expr) bool {
		for {
			switch x := e.(type) {
			case *ast.ParenExpr:
				e = x.X
			case *ast.IndexExpr:
				e = x.X
			case *ast.SliceExpr:
				e = x.X
			case *ast.StarExpr:
				e = x.X
			case *ast.SelectorExpr:
				e = x.X
			case *ast.Ident:
				return x.Name == t.recv
			default:
				return false
			}
		}
	}
	ast.Inspect(body, func(n ast.Node) bool {
		switch x := n.(type) {
		case *ast.AssignStmt:
			for _, l := range x.Lhs {
				if isRecvPart(l) {
					found = true
				}
			}
		case *ast.IncDecStmt:
			if isRecvPart(x.X) {
				found = true
			}
		case *ast.UnaryExpr:
			if x.Op == token.AND && isRecvPart(x.X) {
				found = true // the address of the copy escapes
			}
		}
		return !found
	})
	return found
}

func builtinBlank(e ast.Expr) bool {
	id, ok := e.(*ast.Ident)
	return ok && id.Name == "_"
}

func (t *mtr) method(fd *ast.FuncDecl) (string, error) {
	t.err = nil
	t.notes = nil
	t.checks = nil
	t.recv = fd.Recv.List[0].Names[0].Name
	t.vtype = map[string]string{}
	t.used = nil
	t.resTy = nil
	t.ren = map[string]string{}
	t.fresh = 0
	t.sparam = map[string]bool{}
	_, t.ptrRecv = fd.Recv.List[0].Type.(*ast.StarExpr)
	if t.tg.Bytes && !t.ptrRecv && t.writesReceiver(fd.Body) {
		return "", fmt.Errorf("a method with a value receiver writes to its copy of the struct (the slice's backing array is shared with the caller's)")
	}
	c := &mctx{scope: map[string]bool{"inb": true}}
	var binders []string
	for _, f := range t.tg.Fields {
		v := fieldVar(t.recv, f)
		c.scope[v] = true
		c.state = append(c.state, v)
		binders = append(binders, fmt.Sprintf("(%s : %s)", v, t.lt(t.ftype[f])))
		t.vtype[v] = t.lt(t.ftype[f])
	}
	for _, f := range fd.Type.Params.List {
		if flds, ok := t.tg.Structs[t.src(f.Type)]; ok {
			// a parameter of struct type: one argument per listed field
			for _, n := range f.Names {
				t.sparam[n.Name] = true
				for _, fl := range flds {
					v := leanIdent(n.Name) + "_" + fl[0]
					c.scope[v] = true
					t.vtype[v] = fl[1]
					binders = append(binders, fmt.Sprintf("(%s : %s)", v, fl[1]))
				}
			}
			continue
		}
		ty := t.lt(t.src(f.Type))
		if ty == "" {
			return "", fmt.Errorf("parameter type %s", t.src(f.Type))
		}
		for _, n := range f.Names {
			if n.Name == "_" {
				binders = append(binders, fmt.Sprintf("(_ : %s)", ty))
				continue
			}
			v := leanIdent(n.Name)
			c.scope[v] = true
			t.vtype[v] = ty
			binders = append(binders, fmt.Sprintf("(%s : %s)", v, ty))
		}
	}
	var resTypes []string
	var inits []string
	if fd.Type.Results != nil {
		for _, f := range fd.Type.Results.List {
			ty := t.lt(t.src(f.Type))
			if ty == "" {
				return "", fmt.Errorf("result type %s", t.src(f.Type))
			}
			zero := map[string]string{"Int": "0", "Bool": "false", "Option α": "none"}[ty]
			if z, ok := t.tg.Zero[ty]; ok && zero == "" && t.tg.Comp != nil && len(f.Names) > 0 {
				t.use(fmt.Sprintf("(%s : %s)", z, ty))
				zero = z
			}
			if zero == "" && t.tg.Acc2 != nil && strings.HasPrefix(ty, "Option ") {
				zero = "none"
			}
			if zero == "" && t.tg.Comp != nil && len(f.Names) > 0 {
				return "", fmt.Errorf("zero value of the named result type %s", t.src(f.Type))
			}
			if len(f.Names) == 0 {
				resTypes = append(resTypes, ty)
			}
			for _, n := range f.Names {
				v := leanIdent(n.Name)
				resTypes = append(resTypes, ty)
				c.results = append(c.results, v)
				c.scope[v] = true
				if t.tg.Comp != nil {
					t.vtype[v] = ty
				}
				inits = append(inits, fmt.Sprintf("  let %s : %s := %s\n", v, ty, zero))
			}
		}
	}
	noResults := len(resTypes) == 0
	if noResults {
		resTypes = []string{"Unit"}
	}
	t.resTy = resTypes
	var stTypes []string
	for _, f := range t.tg.Fields {
		stTypes = append(stTypes, t.lt(t.ftype[f]))
	}
	body := t.block(fd.Body.List, c, "  ", func(c *mctx, ind string) string {
		if noResults {
			return ind + "(" + tupleOf(c.state) + ", (), inb)\n"
		}
		if len(c.results) == 0 {
			t.fail(fd, "falls off the end without named results")
			return ""
		}
		return ind + "(" + tupleOf(c.state) + ", " + tupleOf(c.results) + ", inb)\n"
	})
	if t.err != nil {
		return "", t.err
	}
	var sb strings.Builder
	ext := ""
	if len(t.used) > 0 {
		ext = strings.Join(t.used, " ") + "\n    "
	}
	if t.tg.Params != nil {
		for _, d := range t.tg.Deq {
			ext += "[DecidableEq " + d + "] "
		}
		if len(t.tg.Params) > 0 || !t.tg.Bytes {
			ext = strings.TrimRight(ext, " ") + "\n    " + strings.Join(t.tg.Params, " ") + "\n    "
		}
		if len(stTypes) == 0 {
			stTypes = []string{"Unit"}
		}
		if t.sib == nil {
			t.sib = map[string][]string{}
		}
		if !noResults {
			t.sib[fd.Name.Name] = resTypes
		}
	}
	sigText := ext + strings.Join(binders, " ") + strings.Join(stTypes, " ") + strings.Join(resTypes, " ")
	var tvs []string
	for _, tv := range t.tg.TypeVars {
		for _, w := range strings.FieldsFunc(sigText, func(r rune) bool { return strings.ContainsRune(" ()×→:", r) }) {
			if w == tv {
				tvs = append(tvs, tv)
				break
			}
		}
	}
	if len(tvs) == 0 && t.tg.Bytes {
		fmt.Fprintf(&sb, "def %s_%s %s%s :\n    (%s) × (%s) × Bool :=\n", t.tg.Recv, fd.Name.Name, ext,
			strings.Join(binders, " "), strings.Join(stTypes, " × "), strings.Join(resTypes, " × "))
	} else {
		fmt.Fprintf(&sb, "def %s_%s {%s : Type} %s%s :\n    (%s) × (%s) × Bool :=\n", t.tg.Recv, fd.Name.Name, strings.Join(tvs, " "), ext,
			strings.Join(binders, " "), strings.Join(stTypes, " × "), strings.Join(resTypes, " × "))
	}
	if t.tg.Bytes {
		if t.sibB == nil {
			t.sibB = map[string]sibSig{}
		}
		sig := sibSig{ptr: t.ptrRecv}
		for _, f := range fd.Type.Params.List {
			for range f.Names {
				sig.args = append(sig.args, t.lt(t.src(f.Type)))
			}
		}
		if !noResults {
			sig.res = resTypes
		}
		t.sibB[fd.Name.Name] = sig
	}
	sb.WriteString("  let inb : Bool := true\n")
	for _, i := range inits {
		sb.WriteString(i)
	}
	sb.WriteString(body)
	return sb.String(), nil
}

func translateMethods(repo, outDir string) ([]fnOut, error) {
	var all []fnOut
	for _, tg := range methodTargets {
		fset := token.NewFileSet()
		f, err := parser.ParseFile(fset, filepath.Join(repo, tg.File), nil, 0)
		var sb strings.Builder
		for _, im := range tg.Imports {
			fmt.Fprintf(&sb, "import %s\n", im)
		}
		fmt.Fprintf(&sb, "-- GENERATED by /verif/tools/gofacts (methods.go) from %s on every run; do not edit.\n", tg.File)
		sb.WriteString("set_option linter.unusedVariables false\nnamespace HsVerif.Gen.Methods\n\n")
		if tg.Bytes {
			sb.WriteString("/-- Go `s[i]` on a slice of bytes (a byte is a `Nat` below 256); the in-range condition is tracked separately in `inb`. -/\n")
			sb.WriteString("def getB (l : List Nat) (i : Int) : Nat := l.getD i.toNat 0\n")
			sb.WriteString("/-- Go `s[i] = x` -/\n")
			sb.WriteString("def setB (l : List Nat) (i : Int) (x : Nat) : List Nat := l.set i.toNat x\n\n")
		}
		if tg.Out == "Queue" {
			sb.WriteString("/-- Go `s[i]` on a slice of `any` (nil = none); the in-range condition is tracked separately in `inb`. -/\n")
			sb.WriteString("def getI {α : Type} (l : List (Option α)) (i : Int) : Option α := l.getD i.toNat none\n")
			sb.WriteString("/-- Go `s[i] = x` -/\n")
			sb.WriteString("def setI {α : Type} (l : List (Option α)) (i : Int) (x : Option α) : List (Option α) := l.set i.toNat x\n\n")
		}
		t := &mtr{fset: fset, tg: tg, ftype: map[string]string{}, file: f}
		if err == nil {
			for _, im := range f.Imports {
				if im.Path.Value == `"slices"` && im.Name == nil {
					t.slicesPkg = true
				}
			}
			for _, d := range f.Decls {
				gd, ok := d.(*ast.GenDecl)
				if !ok {
					continue
				}
				for _, sp := range gd.Specs {
					ts, ok := sp.(*ast.TypeSpec)
					if !ok || ts.Name.Name != tg.Recv {
						continue
					}
					if st, ok := ts.Type.(*ast.StructType); ok {
						var names []string
						for _, fl := range st.Fields.List {
							for _, n := range fl.Names {
								t.ftype[n.Name] = t.src(fl.Type)
								names = append(names, n.Name+" "+t.src(fl.Type))
							}
						}
						fmt.Fprintf(&sb, "-- struct %s { %s }\n\n", tg.Recv, strings.Join(names, "; "))
					}
				}
			}
		}
		structOK := err == nil
		for _, fl := range tg.Fields {
			if t.lt(t.ftype[fl]) == "" {
				structOK = false
			}
		}
		// every field of the struct must be either modelled or listed as synchronisation
		for fl := range t.ftype {
			if !t.modelled(fl) && !t.isSync(fl) && !inList(tg.Log, fl) && !inList(tg.Comp, fl) {
				structOK = false
			}
		}
		for _, m := range tg.Methods {
			o := fnOut{Name: tg.Recv + "." + m, Source: tg.File}
			var fd *ast.FuncDecl
			if err == nil {
				for _, d := range f.Decls {
					if x, ok := d.(*ast.FuncDecl); ok && x.Name.Name == m && x.Recv != nil && len(x.Recv.List) == 1 &&
						recvName(x.Recv.List[0].Type) == tg.Recv && len(x.Recv.List[0].Names) == 1 {
						fd = x
					}
				}
			}
			switch {
			case !structOK:
				o.Err = "struct " + tg.Recv + " has fields outside the modelled/synchronisation lists or of unsupported type"
			case fd == nil:
				o.Err = "method not found"
			default:
				lean, e := t.method(fd)
				if e != nil {
					o.Err = e.Error()
				} else {
					o.Lean = lean
					o.Notes = t.notes
				}
			}
			if o.Err != "" {
				fmt.Fprintf(&sb, "-- NOT TRANSLATED: %s: %s\n", o.Name, o.Err)
				fmt.Fprintf(&sb, "def %s_%s_untranslated : Unit := ()\n\n", tg.Recv, m)
			} else {
				for _, n := range o.Notes {
					fmt.Fprintf(&sb, "-- note: %s\n", n)
				}
				sb.WriteString(o.Lean)
				sb.WriteString("\n")
			}
			all = append(all, o)
		}
		sb.WriteString("end HsVerif.Gen.Methods\n")
		if err := os.WriteFile(filepath.Join(outDir, tg.Out+".lean"), []byte(sb.String()), 0o644); err != nil {
			return nil, err
		}
	}
	return all, nil
}
