package main

// Second translator (DESIGN.md §3.2, "methods"): methods of a small struct whose modelled fields
// are Go ints and one slice of `any`, written with assignments, `++`, `if/else`, early `return`,
// slice reads and writes.  Each method becomes a pure Lean function
//
//	f (fields…) (params…) : (fields… as a tuple) × results × Bool
//
// from the receiver's fields and the parameters to the new field values, the results and an
// "every slice index was in range" flag (Go would panic where the flag is false; the flag is the
// conjunction of `0 ≤ i < len` over the index expressions evaluated on the path taken).
// `any` values are `Option α` (nil = none).  Statements that only touch fields listed as
// synchronisation (`mut`, `readyChan`) — Lock/Unlock, the non-blocking send in a `select` — are
// skipped and named in a note: the lock discipline itself is a gofacts fact.
// Anything outside the subset makes the method "NOT TRANSLATED" and the bridging lemma fails.

import (
	"fmt"
	"go/ast"
	"go/parser"
	"go/printer"
	"go/token"
	"os"
	"path/filepath"
	"strings"
)

type methodTarget struct {
	File    string
	Recv    string   // receiver type name
	Fields  []string // modelled fields, in the order of the state tuple
	Sync    []string // fields whose statements are skipped
	Methods []string
	Out     string
	// optional: opaque value types. Types maps Go type text to a Lean type (a type variable of TypeVars);
	// Accessors gives the Lean result type of niladic methods called on opaque values (`qc.View()`), which
	// become function parameters `<T>_<M> : T → R`; Ext lists receiver fields that are other components:
	// `v, ok := s.<ext>.<M>(arg)` becomes a function parameter `<ext>_<M> : A → R × Bool`.
	TypeVars  []string
	Types     map[string]string
	Accessors map[string]string
	Ext       map[string][2]string // "<ext>.<M>" -> {argument Lean type, result Lean type}
}

var methodTargets = []methodTarget{
	{"core/eventloop/queue.go", "queue", []string{"entries", "head", "tail"}, []string{"mut", "readyChan"},
		[]string{"push", "pop", "len"}, "Queue", []string{"α"}, nil, nil, nil},
	{"protocol/viewstates.go", "ViewStates", []string{"highTC", "highQC", "view", "committedBlock"}, []string{"mut", "blockchain", "auth"},
		[]string{"UpdateHighQC", "UpdateHighTC", "NextView", "EnterViewAfter", "View", "HighQC", "HighTC", "UpdateCommittedBlock", "CommittedBlock"},
		"ViewStates", []string{"QC", "TC", "Blk", "Hash"},
		map[string]string{"hotstuff.QuorumCert": "QC", "hotstuff.TimeoutCert": "TC", "*hotstuff.Block": "Blk", "hotstuff.View": "Int", "error": "Bool"},
		map[string]string{"View": "Int", "BlockHash": "Hash"},
		map[string][2]string{"blockchain.Get": {"Hash", "Blk"}}},
}

type mtr struct {
	fset   *token.FileSet
	tg     methodTarget
	recv   string // receiver variable name
	ftype  map[string]string
	err    error
	notes  []string
	checks []string // pending index checks of the statement being translated
	vtype  map[string]string // Lean type of parameters, fields (by Lean variable name) and locals where known
	used   []string          // function parameters (accessors, external calls) used by the method, "name : type"
	resTy  []string          // Lean result types of the method being translated
}

func (t *mtr) use(decl string) {
	for _, u := range t.used {
		if u == decl {
			return
		}
	}
	t.used = append(t.used, decl)
}

func (t *mtr) lt(goType string) string {
	if ty := leanType(goType); ty != "" {
		return ty
	}
	return t.tg.Types[goType]
}

func (t *mtr) src(n ast.Node) string {
	var sb strings.Builder
	printer.Fprint(&sb, t.fset, n)
	return sb.String()
}

func (t *mtr) fail(n ast.Node, why string) string {
	if t.err == nil {
		t.err = fmt.Errorf("%s: %s", why, strings.ReplaceAll(t.src(n), "\n", " "))
	}
	return "0"
}

func (t *mtr) isField(e ast.Expr) (string, bool) {
	if s, ok := e.(*ast.SelectorExpr); ok {
		if id, ok := s.X.(*ast.Ident); ok && id.Name == t.recv {
			return s.Sel.Name, true
		}
	}
	return "", false
}

func (t *mtr) modelled(f string) bool {
	for _, x := range t.tg.Fields {
		if x == f {
			return true
		}
	}
	return false
}

func (t *mtr) isSync(f string) bool {
	for _, x := range t.tg.Sync {
		if x == f {
			return true
		}
	}
	return false
}

func fieldVar(recv, f string) string { return recv + "_" + f }

func leanType(goType string) string {
	switch goType {
	case "int":
		return "Int"
	case "bool":
		return "Bool"
	case "any":
		return "Option α"
	case "[]any":
		return "List (Option α)"
	}
	return ""
}

func (t *mtr) expr(e ast.Expr) string {
	switch x := e.(type) {
	case *ast.Ident:
		switch x.Name {
		case "nil":
			return "none"
		case "true", "false":
			return x.Name
		}
		return leanIdent(x.Name)
	case *ast.BasicLit:
		if x.Kind == token.INT {
			return x.Value
		}
		return t.fail(e, "literal")
	case *ast.ParenExpr:
		return "(" + t.expr(x.X) + ")"
	case *ast.UnaryExpr:
		if x.Op == token.SUB {
			return "(-" + t.expr(x.X) + ")"
		}
		return t.fail(e, "unary operator")
	case *ast.SelectorExpr:
		if f, ok := t.isField(x); ok && t.modelled(f) {
			return fieldVar(t.recv, f)
		}
		return t.fail(e, "selector")
	case *ast.IndexExpr:
		if f, ok := t.isField(x.X); ok && t.modelled(f) && t.ftype[f] == "[]any" {
			i := t.expr(x.Index)
			t.checks = append(t.checks, fmt.Sprintf("(decide (0 ≤ %s ∧ %s < (%s.length : Int)))", i, i, fieldVar(t.recv, f)))
			return fmt.Sprintf("(getI %s %s)", fieldVar(t.recv, f), i)
		}
		return t.fail(e, "index")
	case *ast.BinaryExpr:
		l, r := t.expr(x.X), t.expr(x.Y)
		switch x.Op {
		case token.ADD:
			return "(" + l + " + " + r + ")"
		case token.SUB:
			return "(" + l + " - " + r + ")"
		case token.MUL:
			return "(" + l + " * " + r + ")"
		}
		return t.fail(e, "operator")
	case *ast.CallExpr:
		if exprName(x.Fun) == "fmt.Errorf" {
			return "true" // an error value: only its presence is modelled
		}
		if se, ok := x.Fun.(*ast.SelectorExpr); ok && len(x.Args) == 0 {
			if rty, ok := t.tg.Accessors[se.Sel.Name]; ok {
				recv := t.expr(se.X)
				if ty := t.vtype[recv]; ty != "" && ty != "Int" && ty != "Bool" {
					fn := ty + "_" + se.Sel.Name
					t.use(fmt.Sprintf("(%s : %s → %s)", fn, ty, rty))
					return "(" + fn + " " + recv + ")"
				}
			}
		}
		if exprName(x.Fun) == "len" && len(x.Args) == 1 {
			if f, ok := t.isField(x.Args[0]); ok && t.modelled(f) && t.ftype[f] == "[]any" {
				return "(" + fieldVar(t.recv, f) + ".length : Int)"
			}
		}
		return t.fail(e, "call")
	}
	return t.fail(e, "expression")
}

func (t *mtr) cond(e ast.Expr) string {
	switch x := e.(type) {
	case *ast.ParenExpr:
		return "(" + t.cond(x.X) + ")"
	case *ast.Ident:
		if t.vtype[leanIdent(x.Name)] == "Bool" {
			return "(" + leanIdent(x.Name) + " = true)"
		}
	case *ast.UnaryExpr:
		if id, ok := x.X.(*ast.Ident); ok && x.Op == token.NOT && t.vtype[leanIdent(id.Name)] == "Bool" {
			return "(" + leanIdent(id.Name) + " = false)"
		}
	case *ast.BinaryExpr:
		switch x.Op {
		case token.LAND:
			return "(" + t.cond(x.X) + " ∧ " + t.cond(x.Y) + ")"
		case token.LOR:
			return "(" + t.cond(x.X) + " ∨ " + t.cond(x.Y) + ")"
		case token.LSS, token.LEQ, token.GTR, token.GEQ, token.EQL, token.NEQ:
			op := map[token.Token]string{token.LSS: "<", token.LEQ: "≤", token.GTR: ">", token.GEQ: "≥", token.EQL: "=", token.NEQ: "≠"}[x.Op]
			return "(" + t.expr(x.X) + " " + op + " " + t.expr(x.Y) + ")"
		}
	}
	t.fail(e, "condition")
	return "True"
}

// target variable of an assignable expression (local, named result or modelled int field)
func (t *mtr) lhsVar(e ast.Expr) (string, bool) {
	if id, ok := e.(*ast.Ident); ok {
		return leanIdent(id.Name), true
	}
	if f, ok := t.isField(e); ok && t.modelled(f) && t.ftype[f] != "[]any" {
		return fieldVar(t.recv, f), true
	}
	return "", false
}

// syncOnly: a statement that only concerns the synchronisation fields
func (t *mtr) syncOnly(s ast.Stmt) bool {
	touches := func(n ast.Node) (sync, other bool) {
		ast.Inspect(n, func(m ast.Node) bool {
			if se, ok := m.(*ast.SelectorExpr); ok {
				if f, ok := t.isField(se); ok {
					if t.isSync(f) {
						sync = true
					} else {
						other = true
					}
					return false
				}
			}
			if id, ok := m.(*ast.Ident); ok && id.Obj != nil && id.Obj.Kind == ast.Var && id.Name != t.recv {
				other = true
			}
			return true
		})
		return
	}
	switch x := s.(type) {
	case *ast.ExprStmt, *ast.DeferStmt:
		sy, ot := touches(x)
		return sy && !ot
	case *ast.SelectStmt:
		// every communication clause sends the empty struct on a sync channel or is `default`, with empty bodies
		for _, c := range x.Body.List {
			cc := c.(*ast.CommClause)
			if len(cc.Body) != 0 {
				return false
			}
			if cc.Comm == nil {
				continue
			}
			snd, ok := cc.Comm.(*ast.SendStmt)
			if !ok {
				return false
			}
			f, ok := t.isField(snd.Chan)
			if !ok || !t.isSync(f) || t.src(snd.Value) != "struct{}{}" {
				return false
			}
		}
		return true
	}
	return false
}

// assignedVars: variables (Lean names) a statement list may assign, in order of first occurrence,
// restricted to those already declared in `scope`.
func (t *mtr) assignedVars(list []ast.Stmt, scope map[string]bool) []string {
	var out []string
	seen := map[string]bool{}
	add := func(v string) {
		if scope[v] && !seen[v] {
			seen[v] = true
			out = append(out, v)
		}
	}
	for _, s := range list {
		ast.Inspect(s, func(n ast.Node) bool {
			switch x := n.(type) {
			case *ast.AssignStmt:
				for _, l := range x.Lhs {
					if ie, ok := l.(*ast.IndexExpr); ok {
						if f, ok := t.isField(ie.X); ok {
							add(fieldVar(t.recv, f))
							add("inb")
						}
					} else if v, ok := t.lhsVar(l); ok {
						add(v)
					}
				}
			case *ast.IncDecStmt:
				if v, ok := t.lhsVar(x.X); ok {
					add(v)
				}
			case *ast.IndexExpr:
				add("inb")
			}
			return true
		})
	}
	return out
}

func terminates(list []ast.Stmt) bool {
	if len(list) == 0 {
		return false
	}
	switch x := list[len(list)-1].(type) {
	case *ast.ReturnStmt:
		return true
	case *ast.IfStmt:
		if x.Else == nil {
			return false
		}
		eb, ok := x.Else.(*ast.BlockStmt)
		return ok && terminates(x.Body.List) && terminates(eb.List)
	}
	return false
}

func containsReturn(list []ast.Stmt) bool {
	found := false
	for _, s := range list {
		ast.Inspect(s, func(n ast.Node) bool {
			if _, ok := n.(*ast.ReturnStmt); ok {
				found = true
			}
			return !found
		})
	}
	return found
}

func tupleOf(vs []string) string {
	if len(vs) == 1 {
		return vs[0]
	}
	return "(" + strings.Join(vs, ", ") + ")"
}

// projections of a right-nested tuple p with n components
func proj(p string, k, n int) string {
	if n == 1 {
		return p
	}
	s := p
	for i := 0; i < k; i++ {
		s += ".2"
	}
	if k < n-1 {
		s += ".1"
	}
	return s
}

type mctx struct {
	scope   map[string]bool // declared Lean variables
	results []string        // named results (Lean names), if any
	state   []string        // field variables
}

func (c *mctx) clone() *mctx {
	m := map[string]bool{}
	for k, v := range c.scope {
		m[k] = v
	}
	return &mctx{m, c.results, c.state}
}

func (t *mtr) flushChecks(ind string) string {
	var sb strings.Builder
	for _, c := range t.checks {
		fmt.Fprintf(&sb, "%slet inb : Bool := inb && %s\n", ind, c)
	}
	t.checks = nil
	return sb.String()
}

// block translates stmts followed by the continuation `rest` (Lean text of the value of what follows).
func (t *mtr) block(list []ast.Stmt, c *mctx, ind string, rest func(c *mctx, ind string) string) string {
	if len(list) == 0 {
		return rest(c, ind)
	}
	s, tail := list[0], list[1:]
	next := func(c *mctx, ind string) string { return t.block(tail, c, ind, rest) }
	if t.syncOnly(s) {
		t.notes = append(t.notes, "skipped (synchronisation only): "+strings.Join(strings.Fields(t.src(s)), " "))
		return next(c, ind)
	}
	switch x := s.(type) {
	case *ast.ReturnStmt:
		var rs []string
		if len(x.Results) == 0 {
			rs = c.results
		} else {
			for i, r := range x.Results {
				if id, ok := r.(*ast.Ident); ok && id.Name == "nil" && i < len(t.resTy) && t.resTy[i] == "Bool" {
					rs = append(rs, "false") // nil error
					continue
				}
				rs = append(rs, t.expr(r))
			}
		}
		if len(rs) == 0 {
			rs = []string{"()"}
		}
		pre := t.flushChecks(ind)
		return pre + ind + "(" + tupleOf(c.state) + ", " + tupleOf(rs) + ", inb)\n"
	case *ast.AssignStmt:
		if len(x.Lhs) == 2 && len(x.Rhs) == 1 && x.Tok == token.DEFINE {
			// v, ok := s.<ext>.<M>(arg)
			if call, ok := x.Rhs[0].(*ast.CallExpr); ok && len(call.Args) == 1 {
				if se, ok := call.Fun.(*ast.SelectorExpr); ok {
					if f, ok := t.isField(se.X); ok {
						if sig, ok := t.tg.Ext[f+"."+se.Sel.Name]; ok {
							v0, ok0 := x.Lhs[0].(*ast.Ident)
							v1, ok1 := x.Lhs[1].(*ast.Ident)
							if ok0 && ok1 {
								fn := f + "_" + se.Sel.Name
								t.use(fmt.Sprintf("(%s : %s → %s × Bool)", fn, sig[0], sig[1]))
								arg := t.expr(call.Args[0])
								c = c.clone()
								a, b := leanIdent(v0.Name), leanIdent(v1.Name)
								c.scope[a], c.scope[b] = true, true
								t.vtype[a], t.vtype[b] = sig[1], "Bool"
								return fmt.Sprintf("%slet r' := (%s %s)\n%slet %s := r'.1\n%slet %s := r'.2\n", ind, fn, arg, ind, a, ind, b) + next(c, ind)
							}
						}
					}
				}
			}
		}
		if len(x.Lhs) != 1 || len(x.Rhs) != 1 {
			t.fail(s, "multi-assign")
			return ""
		}
		if ie, ok := x.Lhs[0].(*ast.IndexExpr); ok && x.Tok == token.ASSIGN {
			f, ok := t.isField(ie.X)
			if !ok || !t.modelled(f) || t.ftype[f] != "[]any" {
				t.fail(s, "indexed assignment")
				return ""
			}
			i := t.expr(ie.Index)
			v := t.expr(x.Rhs[0])
			fv := fieldVar(t.recv, f)
			t.checks = append(t.checks, fmt.Sprintf("(decide (0 ≤ %s ∧ %s < (%s.length : Int)))", i, i, fv))
			pre := t.flushChecks(ind)
			return pre + fmt.Sprintf("%slet %s := (setI %s %s %s)\n", ind, fv, fv, i, v) + next(c, ind)
		}
		v, ok := t.lhsVar(x.Lhs[0])
		if !ok {
			t.fail(s, "assign target")
			return ""
		}
		r := t.expr(x.Rhs[0])
		switch x.Tok {
		case token.DEFINE:
			c = c.clone()
			c.scope[v] = true
		case token.ASSIGN:
		case token.ADD_ASSIGN:
			r = "(" + v + " + " + r + ")"
		case token.SUB_ASSIGN:
			r = "(" + v + " - " + r + ")"
		default:
			t.fail(s, "assignment operator")
			return ""
		}
		pre := t.flushChecks(ind)
		return pre + fmt.Sprintf("%slet %s := %s\n", ind, v, r) + next(c, ind)
	case *ast.IncDecStmt:
		v, ok := t.lhsVar(x.X)
		if !ok {
			t.fail(s, "inc/dec target")
			return ""
		}
		op := "+"
		if x.Tok == token.DEC {
			op = "-"
		}
		return fmt.Sprintf("%slet %s := (%s %s 1)\n", ind, v, v, op) + next(c, ind)
	case *ast.IfStmt:
		if x.Init != nil {
			t.fail(s, "if with init")
			return ""
		}
		cnd := t.cond(x.Cond)
		pre := t.flushChecks(ind)
		var elseList []ast.Stmt
		if x.Else != nil {
			eb, ok := x.Else.(*ast.BlockStmt)
			if !ok {
				t.fail(s, "else-if")
				return ""
			}
			elseList = eb.List
		}
		if containsReturn(x.Body.List) || containsReturn(elseList) {
			// early return: the continuation goes into every branch that falls through
			th := t.block(x.Body.List, c.clone(), ind+"  ", next)
			el := t.block(elseList, c.clone(), ind+"  ", next)
			return pre + fmt.Sprintf("%sif %s then\n%s%selse\n%s", ind, cnd, th, ind, el)
		}
		vars := t.assignedVars(append(append([]ast.Stmt{}, x.Body.List...), elseList...), c.scope)
		if len(vars) == 0 {
			return pre + next(c, ind)
		}
		tup := tupleOf(vars)
		fin := func(_ *mctx, ind string) string { return ind + tup + "\n" }
		th := t.block(x.Body.List, c.clone(), ind+"    ", fin)
		el := t.block(elseList, c.clone(), ind+"    ", fin)
		var sb strings.Builder
		sb.WriteString(pre)
		if len(vars) == 1 {
			fmt.Fprintf(&sb, "%slet %s :=\n%s  if %s then\n%s%s  else\n%s", ind, vars[0], ind, cnd, th, ind, el)
		} else {
			fmt.Fprintf(&sb, "%slet p' :=\n%s  if %s then\n%s%s  else\n%s", ind, ind, cnd, th, ind, el)
			for k, v := range vars {
				fmt.Fprintf(&sb, "%slet %s := %s\n", ind, v, proj("p'", k, len(vars)))
			}
		}
		return sb.String() + next(c, ind)
	}
	t.fail(s, "statement")
	return ""
}

func (t *mtr) method(fd *ast.FuncDecl) (string, error) {
	t.err = nil
	t.notes = nil
	t.checks = nil
	t.recv = fd.Recv.List[0].Names[0].Name
	t.vtype = map[string]string{}
	t.used = nil
	t.resTy = nil
	c := &mctx{scope: map[string]bool{"inb": true}}
	var binders []string
	for _, f := range t.tg.Fields {
		v := fieldVar(t.recv, f)
		c.scope[v] = true
		c.state = append(c.state, v)
		binders = append(binders, fmt.Sprintf("(%s : %s)", v, t.lt(t.ftype[f])))
		t.vtype[v] = t.lt(t.ftype[f])
	}
	for _, f := range fd.Type.Params.List {
		ty := t.lt(t.src(f.Type))
		if ty == "" {
			return "", fmt.Errorf("parameter type %s", t.src(f.Type))
		}
		for _, n := range f.Names {
			v := leanIdent(n.Name)
			c.scope[v] = true
			t.vtype[v] = ty
			binders = append(binders, fmt.Sprintf("(%s : %s)", v, ty))
		}
	}
	var resTypes []string
	var inits []string
	if fd.Type.Results != nil {
		for _, f := range fd.Type.Results.List {
			ty := t.lt(t.src(f.Type))
			if ty == "" {
				return "", fmt.Errorf("result type %s", t.src(f.Type))
			}
			zero := map[string]string{"Int": "0", "Bool": "false", "Option α": "none"}[ty]
			if len(f.Names) == 0 {
				resTypes = append(resTypes, ty)
			}
			for _, n := range f.Names {
				v := leanIdent(n.Name)
				resTypes = append(resTypes, ty)
				c.results = append(c.results, v)
				c.scope[v] = true
				inits = append(inits, fmt.Sprintf("  let %s : %s := %s\n", v, ty, zero))
			}
		}
	}
	noResults := len(resTypes) == 0
	if noResults {
		resTypes = []string{"Unit"}
	}
	t.resTy = resTypes
	var stTypes []string
	for _, f := range t.tg.Fields {
		stTypes = append(stTypes, t.lt(t.ftype[f]))
	}
	body := t.block(fd.Body.List, c, "  ", func(c *mctx, ind string) string {
		if noResults {
			return ind + "(" + tupleOf(c.state) + ", (), inb)\n"
		}
		if len(c.results) == 0 {
			t.fail(fd, "falls off the end without named results")
			return ""
		}
		return ind + "(" + tupleOf(c.state) + ", " + tupleOf(c.results) + ", inb)\n"
	})
	if t.err != nil {
		return "", t.err
	}
	var sb strings.Builder
	ext := ""
	if len(t.used) > 0 {
		ext = strings.Join(t.used, " ") + "\n    "
	}
	sigText := ext + strings.Join(binders, " ") + strings.Join(stTypes, " ") + strings.Join(resTypes, " ")
	var tvs []string
	for _, tv := range t.tg.TypeVars {
		for _, w := range strings.FieldsFunc(sigText, func(r rune) bool { return strings.ContainsRune(" ()×→:", r) }) {
			if w == tv {
				tvs = append(tvs, tv)
				break
			}
		}
	}
	fmt.Fprintf(&sb, "def %s_%s {%s : Type} %s%s :\n    (%s) × (%s) × Bool :=\n", t.tg.Recv, fd.Name.Name, strings.Join(tvs, " "), ext,
		strings.Join(binders, " "), strings.Join(stTypes, " × "), strings.Join(resTypes, " × "))
	sb.WriteString("  let inb : Bool := true\n")
	for _, i := range inits {
		sb.WriteString(i)
	}
	sb.WriteString(body)
	return sb.String(), nil
}

func translateMethods(repo, outDir string) ([]fnOut, error) {
	var all []fnOut
	for _, tg := range methodTargets {
		fset := token.NewFileSet()
		f, err := parser.ParseFile(fset, filepath.Join(repo, tg.File), nil, 0)
		var sb strings.Builder
		fmt.Fprintf(&sb, "-- GENERATED by /verif/tools/gofacts (methods.go) from %s on every run; do not edit.\n", tg.File)
		sb.WriteString("set_option linter.unusedVariables false\nnamespace HsVerif.Gen.Methods\n\n")
		if tg.Out == "Queue" {
			sb.WriteString("/-- Go `s[i]` on a slice of `any` (nil = none); the in-range condition is tracked separately in `inb`. -/\n")
			sb.WriteString("def getI {α : Type} (l : List (Option α)) (i : Int) : Option α := l.getD i.toNat none\n")
			sb.WriteString("/-- Go `s[i] = x` -/\n")
			sb.WriteString("def setI {α : Type} (l : List (Option α)) (i : Int) (x : Option α) : List (Option α) := l.set i.toNat x\n\n")
		}
		t := &mtr{fset: fset, tg: tg, ftype: map[string]string{}}
		if err == nil {
			for _, d := range f.Decls {
				gd, ok := d.(*ast.GenDecl)
				if !ok {
					continue
				}
				for _, sp := range gd.Specs {
					ts, ok := sp.(*ast.TypeSpec)
					if !ok || ts.Name.Name != tg.Recv {
						continue
					}
					if st, ok := ts.Type.(*ast.StructType); ok {
						var names []string
						for _, fl := range st.Fields.List {
							for _, n := range fl.Names {
								t.ftype[n.Name] = t.src(fl.Type)
								names = append(names, n.Name+" "+t.src(fl.Type))
							}
						}
						fmt.Fprintf(&sb, "-- struct %s { %s }\n\n", tg.Recv, strings.Join(names, "; "))
					}
				}
			}
		}
		structOK := err == nil
		for _, fl := range tg.Fields {
			if t.lt(t.ftype[fl]) == "" {
				structOK = false
			}
		}
		// every field of the struct must be either modelled or listed as synchronisation
		for fl := range t.ftype {
			if !t.modelled(fl) && !t.isSync(fl) {
				structOK = false
			}
		}
		for _, m := range tg.Methods {
			o := fnOut{Name: tg.Recv + "." + m, Source: tg.File}
			var fd *ast.FuncDecl
			if err == nil {
				for _, d := range f.Decls {
					if x, ok := d.(*ast.FuncDecl); ok && x.Name.Name == m && x.Recv != nil && len(x.Recv.List) == 1 &&
						recvName(x.Recv.List[0].Type) == tg.Recv && len(x.Recv.List[0].Names) == 1 {
						fd = x
					}
				}
			}
			switch {
			case !structOK:
				o.Err = "struct " + tg.Recv + " has fields outside the modelled/synchronisation lists or of unsupported type"
			case fd == nil:
				o.Err = "method not found"
			default:
				lean, e := t.method(fd)
				if e != nil {
					o.Err = e.Error()
				} else {
					o.Lean = lean
					o.Notes = t.notes
				}
			}
			if o.Err != "" {
				fmt.Fprintf(&sb, "-- NOT TRANSLATED: %s: %s\n", o.Name, o.Err)
				fmt.Fprintf(&sb, "def %s_%s_untranslated : Unit := ()\n\n", tg.Recv, m)
			} else {
				for _, n := range o.Notes {
					fmt.Fprintf(&sb, "-- note: %s\n", n)
				}
				sb.WriteString(o.Lean)
				sb.WriteString("\n")
			}
			all = append(all, o)
		}
		sb.WriteString("end HsVerif.Gen.Methods\n")
		if err := os.WriteFile(filepath.Join(outDir, tg.Out+".lean"), []byte(sb.String()), 0o644); err != nil {
			return nil, err
		}
	}
	return all, nil
}
