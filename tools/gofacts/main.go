// Command gofacts is the regenerated half of the model/code tie (DESIGN.md §3.2).
//
//	gofacts -repo /repo -out /verif/lean/HsVerif/HsVerif/Gen -facts /verif/build/facts.json
//
// (1) Translator: for a fixed list of small, straight-line integer functions of /repo it parses
// the current source with go/parser and emits Lean 4 definitions over Int (Go's truncating `/`
// and `%` become Int.tdiv / Int.tmod; the idiom int(math.Ceil(float64(E)/2.0)) becomes the floor
// division (E + 1) / 2, exact for |E| < 2^53; integer conversions are the identity, i.e. no
// overflow is modelled).  Bridging lemmas in HsVerif/Props relate the generated definitions to
// the hand-written model and are re-checked by `lake build` on every run.
// A function that leaves the supported subset is emitted as `opaque`-free stub returning a
// sentinel together with a note, so the bridging lemma fails and the orchestrator reports it.
//
// (2) Facts: syntactic facts the hand-written models assume (lock discipline, which call sites
// consult config.QuorumSize(), order of checks ...) are extracted into facts.json and compared
// by the orchestrator with the expectations kept per property in /verif/vlib/prop_Cxx.py (`facts=`).
package main

import (
	"encoding/json"
	"flag"
	"fmt"
	"go/ast"
	"go/parser"
	"go/printer"
	"go/token"
	"os"
	"path/filepath"
	"sort"
	"strings"
)

type target struct {
	File  string // relative to repo
	Funcs []string
	Out   string // Lean module file name under Gen/
}

var targets = []target{
	{"quorum.go", []string{"NumFaulty", "QuorumSize"}, "Quorum"},
	{"protocol/leaderrotation/common.go", []string{"ChooseRoundRobin"}, "Leader"},
	{"security/crypto/bitfield.go", []string{"index", "id"}, "Bitfield"},
	{"internal/tree/tree.go", []string{"treeHeight"}, "Tree"},
}

type tr struct {
	fset  *token.FileSet
	notes []string
	known map[string]bool // functions translated in this file (callable)
	err   error
}

func (t *tr) fail(n ast.Node, why string) string {
	if t.err == nil {
		var sb strings.Builder
		printer.Fprint(&sb, t.fset, n)
		t.err = fmt.Errorf("%s: %s", why, sb.String())
	}
	return "0"
}

func isConv(name string) bool {
	switch name {
	case "int", "int32", "int64", "uint", "uint8", "uint32", "uint64", "float64", "ID", "View",
		"hotstuff.ID", "hotstuff.View":
		return true
	}
	return false
}

func exprName(e ast.Expr) string {
	switch x := e.(type) {
	case *ast.Ident:
		return x.Name
	case *ast.SelectorExpr:
		return exprName(x.X) + "." + x.Sel.Name
	case *ast.IndexExpr: // generic instantiation f[T](...)
		return exprName(x.X)
	case *ast.IndexListExpr:
		return exprName(x.X)
	}
	return ""
}

func (t *tr) expr(e ast.Expr) string {
	switch x := e.(type) {
	case *ast.Ident:
		return leanIdent(x.Name)
	case *ast.BasicLit:
		if x.Kind == token.INT {
			return x.Value
		}
		if x.Kind == token.FLOAT && (x.Value == "2.0") {
			return "2"
		}
		return t.fail(e, "literal")
	case *ast.ParenExpr:
		return "(" + t.expr(x.X) + ")"
	case *ast.BinaryExpr:
		l, r := t.expr(x.X), t.expr(x.Y)
		switch x.Op {
		case token.ADD:
			return "(" + l + " + " + r + ")"
		case token.SUB:
			return "(" + l + " - " + r + ")"
		case token.MUL:
			return "(" + l + " * " + r + ")"
		case token.QUO:
			return "(Int.tdiv " + l + " " + r + ")"
		case token.REM:
			return "(Int.tmod " + l + " " + r + ")"
		}
		return t.fail(e, "operator")
	case *ast.CallExpr:
		fn := exprName(x.Fun)
		if fn == "int" && len(x.Args) == 1 {
			// int(math.Ceil(float64(E) / 2.0))
			if c, ok := x.Args[0].(*ast.CallExpr); ok && exprName(c.Fun) == "math.Ceil" && len(c.Args) == 1 {
				if b, ok := c.Args[0].(*ast.BinaryExpr); ok && b.Op == token.QUO {
					if lit, ok := b.Y.(*ast.BasicLit); ok && (lit.Value == "2.0" || lit.Value == "2") {
						if f, ok := b.X.(*ast.CallExpr); ok && exprName(f.Fun) == "float64" && len(f.Args) == 1 {
							t.notes = append(t.notes, "float idiom int(math.Ceil(float64(E)/2.0)) translated as (E+1)/2 (floor); exact for |E| < 2^53")
							return "((" + t.expr(f.Args[0]) + " + 1) / 2)"
						}
					}
				}
				return t.fail(e, "math.Ceil form")
			}
		}
		if isConv(fn) && len(x.Args) == 1 {
			return t.expr(x.Args[0])
		}
		if (fn == "min" || fn == "max") && len(x.Args) == 2 {
			return "(" + fn + " " + t.expr(x.Args[0]) + " " + t.expr(x.Args[1]) + ")"
		}
		if t.known[fn] {
			s := "(" + fn
			for _, a := range x.Args {
				s += " " + t.expr(a)
			}
			return s + ")"
		}
		return t.fail(e, "call")
	}
	return t.fail(e, "expression")
}

func (t *tr) cond(e ast.Expr) string {
	switch x := e.(type) {
	case *ast.ParenExpr:
		return "(" + t.cond(x.X) + ")"
	case *ast.BinaryExpr:
		switch x.Op {
		case token.LAND:
			return "(" + t.cond(x.X) + " && " + t.cond(x.Y) + ")"
		case token.LOR:
			return "(" + t.cond(x.X) + " || " + t.cond(x.Y) + ")"
		case token.LSS, token.LEQ, token.GTR, token.GEQ, token.EQL, token.NEQ:
			op := map[token.Token]string{token.LSS: "<", token.LEQ: "≤", token.GTR: ">", token.GEQ: "≥", token.EQL: "==", token.NEQ: "!="}[x.Op]
			if x.Op == token.EQL || x.Op == token.NEQ {
				return "(" + t.expr(x.X) + " " + op + " " + t.expr(x.Y) + ")"
			}
			return "(decide (" + t.expr(x.X) + " " + op + " " + t.expr(x.Y) + "))"
		}
	}
	t.fail(e, "condition")
	return "true"
}

func leanIdent(s string) string {
	switch s {
	case "id", "end", "at", "from", "open", "by", "fun", "if", "then", "else", "do", "let", "in", "have", "show", "with":
		return s + "'"
	}
	return s
}

// assigned returns the variables assigned in a block, in order of first assignment.
func assigned(b *ast.BlockStmt) []string {
	var out []string
	seen := map[string]bool{}
	ast.Inspect(b, func(n ast.Node) bool {
		switch s := n.(type) {
		case *ast.AssignStmt:
			for _, l := range s.Lhs {
				if id, ok := l.(*ast.Ident); ok && !seen[id.Name] {
					seen[id.Name] = true
					out = append(out, id.Name)
				}
			}
		case *ast.IncDecStmt:
			if id, ok := s.X.(*ast.Ident); ok && !seen[id.Name] {
				seen[id.Name] = true
				out = append(out, id.Name)
			}
		}
		return true
	})
	return out
}

// simple statement -> "let x := e" line(s)
func (t *tr) simple(s ast.Stmt) []string {
	switch x := s.(type) {
	case *ast.AssignStmt:
		if len(x.Lhs) != 1 || len(x.Rhs) != 1 {
			t.fail(s, "multi-assign")
			return nil
		}
		id, ok := x.Lhs[0].(*ast.Ident)
		if !ok {
			t.fail(s, "assign target")
			return nil
		}
		v := leanIdent(id.Name)
		r := t.expr(x.Rhs[0])
		switch x.Tok {
		case token.DEFINE, token.ASSIGN:
			return []string{fmt.Sprintf("let %s : Int := %s", v, r)}
		case token.ADD_ASSIGN:
			return []string{fmt.Sprintf("let %s : Int := (%s + %s)", v, v, r)}
		case token.SUB_ASSIGN:
			return []string{fmt.Sprintf("let %s : Int := (%s - %s)", v, v, r)}
		case token.MUL_ASSIGN:
			return []string{fmt.Sprintf("let %s : Int := (%s * %s)", v, v, r)}
		}
	case *ast.IncDecStmt:
		if id, ok := x.X.(*ast.Ident); ok {
			v := leanIdent(id.Name)
			if x.Tok == token.INC {
				return []string{fmt.Sprintf("let %s : Int := (%s + 1)", v, v)}
			}
			return []string{fmt.Sprintf("let %s : Int := (%s - 1)", v, v)}
		}
	}
	t.fail(s, "statement")
	return nil
}

type fnOut struct {
	Name   string
	Lean   string
	Notes  []string
	Err    string
	Source string
}

func (t *tr) fn(fd *ast.FuncDecl) (string, error) {
	t.err = nil
	name := fd.Name.Name
	var params []string
	for _, f := range fd.Type.Params.List {
		for _, n := range f.Names {
			params = append(params, leanIdent(n.Name))
		}
	}
	var results []string
	if fd.Type.Results != nil {
		for _, f := range fd.Type.Results.List {
			for _, n := range f.Names {
				results = append(results, leanIdent(n.Name))
			}
		}
	}
	nres := 0
	if fd.Type.Results != nil {
		for _, f := range fd.Type.Results.List {
			if len(f.Names) == 0 {
				nres++
			} else {
				nres += len(f.Names)
			}
		}
	}
	retTy := "Int"
	if nres == 2 {
		retTy = "Int × Int"
	} else if nres != 1 {
		return "", fmt.Errorf("unsupported result arity %d", nres)
	}
	var aux []string  // auxiliary loop definitions
	var body []string // let-lines
	for _, r := range results {
		body = append(body, fmt.Sprintf("let %s : Int := 0", r))
	}
	retNamed := func() string {
		if len(results) == 1 {
			return results[0]
		}
		return "(" + strings.Join(results, ", ") + ")"
	}
	hasLoop := false
	terminated := false
	for _, s := range fd.Body.List {
		switch x := s.(type) {
		case *ast.ReturnStmt:
			if len(x.Results) == 0 {
				body = append(body, retNamed())
			} else if len(x.Results) == 1 {
				body = append(body, t.expr(x.Results[0]))
			} else if len(x.Results) == 2 {
				body = append(body, "("+t.expr(x.Results[0])+", "+t.expr(x.Results[1])+")")
			}
			terminated = true
		case *ast.ForStmt:
			// for cond { simple statements }  ->  fuelled loop over the assigned variables
			if x.Init != nil || x.Post != nil || x.Cond == nil {
				t.fail(s, "for form")
				break
			}
			hasLoop = true
			vars := assigned(x.Body)
			for i := range vars {
				vars[i] = leanIdent(vars[i])
			}
			loopName := name + "_loop"
			var lets []string
			for _, bs := range x.Body.List {
				lets = append(lets, t.simple(bs)...)
			}
			tuple := "(" + strings.Join(vars, ", ") + ")"
			tyTuple := strings.TrimSuffix(strings.Repeat("Int × ", len(vars)), " × ")
			var sb strings.Builder
			fmt.Fprintf(&sb, "def %s (%s : Int) : Nat → %s → %s\n", loopName, strings.Join(params, " "), tyTuple, tyTuple)
			fmt.Fprintf(&sb, "  | 0, %s => %s\n", tuple, tuple)
			fmt.Fprintf(&sb, "  | fuel + 1, %s =>\n    if %s then\n", tuple, t.cond(x.Cond))
			for _, l := range lets {
				fmt.Fprintf(&sb, "      %s\n", l)
			}
			fmt.Fprintf(&sb, "      %s %s fuel %s\n    else %s\n", loopName, strings.Join(params, " "), tuple, tuple)
			aux = append(aux, sb.String())
			body = append(body, fmt.Sprintf("let %s := %s %s fuel %s", tuple, loopName, strings.Join(params, " "), tuple))
			// params shadowed by loop variables keep their Lean names; nothing else to do
		default:
			body = append(body, t.simple(s)...)
		}
		if terminated {
			break
		}
	}
	if !terminated {
		body = append(body, retNamed())
	}
	if t.err != nil {
		return "", t.err
	}
	var sb strings.Builder
	for _, a := range aux {
		sb.WriteString(a)
		sb.WriteString("\n")
	}
	fuel := ""
	if hasLoop {
		fuel = "(fuel : Nat) "
	}
	fmt.Fprintf(&sb, "def %s %s(%s : Int) : %s :=\n", name, fuel, strings.Join(params, " "), retTy)
	for _, l := range body {
		fmt.Fprintf(&sb, "  %s\n", l)
	}
	return sb.String(), nil
}

func translate(repo, outDir string) ([]fnOut, error) {
	var all []fnOut
	for _, tg := range targets {
		fset := token.NewFileSet()
		path := filepath.Join(repo, tg.File)
		f, err := parser.ParseFile(fset, path, nil, 0)
		var sb strings.Builder
		fmt.Fprintf(&sb, "-- GENERATED by /verif/tools/gofacts from %s on every run; do not edit.\n", tg.File)
		sb.WriteString("set_option linter.unusedVariables false\nnamespace HsVerif.Gen\n\n")
		t := &tr{fset: fset, known: map[string]bool{}}
		for _, fnName := range tg.Funcs {
			o := fnOut{Name: fnName, Source: tg.File}
			var fd *ast.FuncDecl
			if err == nil {
				for _, d := range f.Decls {
					if x, ok := d.(*ast.FuncDecl); ok && x.Name.Name == fnName && x.Recv == nil {
						fd = x
					}
				}
			}
			if fd == nil {
				o.Err = "function not found"
			} else {
				t.notes = nil
				lean, e := t.fn(fd)
				if e != nil {
					o.Err = e.Error()
				} else {
					o.Lean = lean
					o.Notes = t.notes
					t.known[fnName] = true
				}
			}
			if o.Err != "" {
				fmt.Fprintf(&sb, "-- NOT TRANSLATED: %s: %s\n", fnName, o.Err)
				fmt.Fprintf(&sb, "def %s_untranslated : Unit := ()\n\n", fnName)
			} else {
				for _, n := range o.Notes {
					fmt.Fprintf(&sb, "-- note: %s\n", n)
				}
				sb.WriteString(o.Lean)
				sb.WriteString("\n")
			}
			all = append(all, o)
		}
		sb.WriteString("end HsVerif.Gen\n")
		if err := os.WriteFile(filepath.Join(outDir, tg.Out+".lean"), []byte(sb.String()), 0o644); err != nil {
			return nil, err
		}
	}
	return all, nil
}

func main() {
	repo := flag.String("repo", "/repo", "repository root")
	out := flag.String("out", "", "directory for generated Lean files")
	factsOut := flag.String("facts", "", "facts.json output")
	flag.Parse()
	res := map[string]any{}
	if *out != "" {
		// delete stale generated files first
		old, _ := filepath.Glob(filepath.Join(*out, "*.lean"))
		for _, o := range old {
			os.Remove(o)
		}
		fns, err := translate(*repo, *out)
		if err != nil {
			fmt.Fprintln(os.Stderr, "gofacts:", err)
			os.Exit(1)
		}
		mfns, err := translateMethods(*repo, *out)
		if err != nil {
			fmt.Fprintln(os.Stderr, "gofacts:", err)
			os.Exit(1)
		}
		res["translated"] = append(fns, mfns...)
	}
	facts := extractFacts(*repo)
	keys := make([]string, 0, len(facts))
	for k := range facts {
		keys = append(keys, k)
	}
	sort.Strings(keys)
	res["facts"] = facts
	if *factsOut != "" {
		b, _ := json.MarshalIndent(res, "", " ")
		if err := os.WriteFile(*factsOut, b, 0o644); err != nil {
			fmt.Fprintln(os.Stderr, "gofacts:", err)
			os.Exit(1)
		}
	}
}
