module verif/gofacts

go 1.23
