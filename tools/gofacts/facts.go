package main

import (
	"go/ast"
	"go/parser"
	"go/token"
	"io/fs"
	"path/filepath"
	"sort"
	"strings"
)

// factFiles: every non-test, non-generated Go file of the repository (relative paths).
func factFiles(repo string) []string {
	var out []string
	filepath.WalkDir(repo, func(p string, d fs.DirEntry, err error) error {
		if err != nil {
			return nil
		}
		if d.IsDir() {
			if n := d.Name(); n == ".git" || n == "node_modules" {
				return filepath.SkipDir
			}
			return nil
		}
		n := d.Name()
		if !strings.HasSuffix(n, ".go") || strings.HasSuffix(n, "_test.go") || strings.HasSuffix(n, ".pb.go") {
			return nil
		}
		rel, _ := filepath.Rel(repo, p)
		if strings.HasPrefix(rel, "internal/verifharness") {
			return nil
		}
		out = append(out, rel)
		return nil
	})
	sort.Strings(out)
	return out
}

// extractFacts returns, per "file:Recv.Func", the ordered list of called selector/function names
// (last path element only), e.g. ["Lock","Unlock","QuorumSize"].  `defer x.Unlock()` is recorded
// as "defer Unlock".  This is deliberately dumb: expectations say what must be present / in
// which order; anything else may change freely.
func extractFacts(repo string) map[string][]string {
	out := map[string][]string{}
	for _, rel := range factFiles(repo) {
		fset := token.NewFileSet()
		f, err := parser.ParseFile(fset, filepath.Join(repo, rel), nil, 0)
		if err != nil {
			out[rel+":<parse-error>"] = []string{err.Error()}
			continue
		}
		for _, d := range f.Decls {
			fd, ok := d.(*ast.FuncDecl)
			if !ok || fd.Body == nil {
				continue
			}
			name := fd.Name.Name
			if fd.Recv != nil && len(fd.Recv.List) == 1 {
				name = recvName(fd.Recv.List[0].Type) + "." + name
			}
			calls := []string{}
			ast.Inspect(fd.Body, func(n ast.Node) bool {
				switch x := n.(type) {
				case *ast.DeferStmt:
					calls = append(calls, "defer "+callName(x.Call))
					return false
				case *ast.CallExpr:
					if cn := callName(x); cn != "" {
						calls = append(calls, cn)
					}
				}
				return true
			})
			out[rel+":"+name] = calls
			// writers of the struct fields the method translator models: every function of the package that
			// assigns, increments or takes the address of a selector `<x>.<field>`
			for _, tg := range methodTargets {
				if filepath.Dir(tg.File) != filepath.Dir(rel) {
					continue
				}
				for _, fld := range tg.Fields {
					key := "pkg:" + filepath.Dir(rel) + "#writers." + tg.Recv + "." + fld
					if _, ok := out[key]; !ok {
						out[key] = []string{}
					}
					if writesField(fd.Body, fld) {
						out[key] = append(out[key], name)
					}
				}
			}
		}
	}
	return out
}

func recvName(e ast.Expr) string {
	switch x := e.(type) {
	case *ast.StarExpr:
		return recvName(x.X)
	case *ast.Ident:
		return x.Name
	case *ast.IndexExpr:
		return recvName(x.X)
	}
	return "?"
}

func callName(c *ast.CallExpr) string {
	n := exprName(c.Fun)
	if i := strings.LastIndex(n, "."); i >= 0 {
		n = n[i+1:]
	}
	return n
}

func writesField(body *ast.BlockStmt, fld string) bool {
	found := false
	isSel := func(e ast.Expr) bool {
		for {
			switch x := e.(type) {
			case *ast.ParenExpr:
				e = x.X
				continue
			case *ast.IndexExpr:
				e = x.X
				continue
			case *ast.SelectorExpr:
				return x.Sel.Name == fld
			}
			return false
		}
	}
	ast.Inspect(body, func(n ast.Node) bool {
		switch x := n.(type) {
		case *ast.AssignStmt:
			for _, l := range x.Lhs {
				if isSel(l) {
					found = true
				}
			}
		case *ast.IncDecStmt:
			if isSel(x.X) {
				found = true
			}
		case *ast.UnaryExpr:
			if x.Op == token.AND && isSel(x.X) {
				found = true
			}
		case *ast.KeyValueExpr: // composite literal &T{field: v}
			if id, ok := x.Key.(*ast.Ident); ok && id.Name == fld {
				found = true
			}
		}
		return !found
	})
	return found
}
