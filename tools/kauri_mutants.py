#!/usr/bin/env python3
"""Mutants of protocol/comm/kauri.go (+ kauri/kauri.go) for the Kauri part of C09.

usage: tools/kauri_mutants.py <property id> [mutant name prefix ...]
Prepare a scratch worktree WITH the two Kauri fixes applied first:
  git -C /repo worktree add --detach /tmp/wt-kauri-m HEAD
  git -C /tmp/wt-kauri-m apply fixes/C09-kauri-nil-aggregate.diff fixes/C09-kauri-first-contribution-quorum.diff
and remove it afterwards (git -C /repo worktree remove --force /tmp/wt-kauri-m).
Each mutant is applied, `./check <pid>` is run with VERIF_REPO aimed at the worktree, the file is restored.
M14 is behaviourally equivalent (Combine detects every overlap that CanMergeContributions would miss)."""
import subprocess, os, sys, re, shutil
WT = "/tmp/wt-kauri-m"
K = WT + "/protocol/comm/kauri.go"
U = WT + "/protocol/comm/kauri/kauri.go"
MUT = [
 ("M01-skip-verify", K, '''	if err := k.auth.Verify(currentSignature, block.ToBytes()); err != nil {
		return err
	}
''', '''	_ = block
'''),
 ("M02-quorum-off-by-one", K, "k.aggContrib.Participants().Len() >= k.config.QuorumSize()", "k.aggContrib.Participants().Len() > k.config.QuorumSize()"),
 ("M03-no-view-check-on-contribution", K, '''	if k.currentView != hotstuff.View(contribution.View) {
		return
	}
''', ""),
 ("M04-timer-flush-without-reset", K, '''		k.sender.SendContributionToParent(k.currentView, k.aggContrib)
		k.reset()
	}
}''', '''		k.sender.SendContributionToParent(k.currentView, k.aggContrib)
	}
}'''),
 ("M05-sender-recorded-before-merge", K, '''	err := k.mergeContribution(currentSignature)
	if err != nil {
		k.logger.Errorf("Failed to merge contribution from %d: %v", contribution.ID, err)
		return
	}
	k.senders = append(k.senders, hotstuff.ID(contribution.ID))
''', '''	k.senders = append(k.senders, hotstuff.ID(contribution.ID))
	err := k.mergeContribution(currentSignature)
	if err != nil {
		k.logger.Errorf("Failed to merge contribution from %d: %v", contribution.ID, err)
		return
	}
'''),
 ("M06-issubset-arguments-swapped", K, "kauri.IsSubSet(k.tree.SubTree(), k.senders)", "kauri.IsSubSet(k.senders, k.tree.SubTree())"),
 ("M07-begin-without-reset", K, '''	k.reset()
	k.blockHash = pc.BlockHash()''', '''	k.blockHash = pc.BlockHash()'''),
 ("M08-leaf-forgets-aggsent", K, '''		k.sender.SendContributionToParent(k.currentView, k.aggContrib)
		k.aggSent = true
	}
	return nil''', '''		k.sender.SendContributionToParent(k.currentView, k.aggContrib)
	}
	return nil'''),
 ("M09-first-contribution-before-verify", K, '''	if err := k.auth.Verify(currentSignature, block.ToBytes()); err != nil {
		return err
	}
	if k.aggContrib == nil {
		// first contribution
		k.aggContrib = currentSignature
	} else {''', '''	if k.aggContrib == nil {
		// first contribution
		k.aggContrib = currentSignature
		return nil
	}
	if err := k.auth.Verify(currentSignature, block.ToBytes()); err != nil {
		return err
	}
	{'''),
 ("M10-qc-from-current-signature", K, '''			SyncInfo: hotstuff.NewSyncInfoWith(hotstuff.NewQuorumCert(
				k.aggContrib,''', '''			SyncInfo: hotstuff.NewSyncInfoWith(hotstuff.NewQuorumCert(
				currentSignature,'''),
 ("M11-stale-timer-accepted", K, '''	if k.currentView != event.currentView {
		return
	}
	if !k.aggSent''', '''	if k.currentView < event.currentView {
		return
	}
	if !k.aggSent'''),
 ("M12-issubset-skips-first", U, "for _, id := range a {", "for _, id := range a[min(1, len(a)):] {"),
 ("M13-own-vote-set-before-reset", K, '''	k.reset()
	k.blockHash = pc.BlockHash()
	k.currentView = p.Block.View()
	k.aggContrib = pc.Signature()''', '''	k.aggContrib = pc.Signature()
	k.reset()
	k.blockHash = pc.BlockHash()
	k.currentView = p.Block.View()'''),
 ("M14-canmerge-checks-only-first", U, "		return canMerge // exit the range-while loop if canMerge is false", "		return false"),
 ("M15-overlap-not-an-error", K, '''		if err := kauri.CanMergeContributions(currentSignature, k.aggContrib); err != nil {
			return err
		}
		combSignature, err := k.auth.Combine(currentSignature, k.aggContrib)
		if err != nil {
			return fmt.Errorf("failed to combine signatures: %v", err)
		}''', '''		combSignature, err := k.auth.Combine(currentSignature, k.aggContrib)
		if err != nil {
			return nil
		}'''),
 ("M16-qc-view-of-contribution-hash-zero", K, '''				k.currentView,
				k.blockHash,''', '''				k.currentView+1,
				k.blockHash,'''),
]
PID = sys.argv[1] if len(sys.argv) > 1 else "C09"
only = sys.argv[2:]
env = dict(os.environ, GOFLAGS="-mod=mod", GOPROXY="off", VERIF_REPO=WT)
for name, path, old, new in MUT:
    if only and not any(name.startswith(o) for o in only):
        continue
    src = open(path).read()
    if old not in src:
        print(name, "PATTERN-NOT-FOUND"); continue
    open(path, "w").write(src.replace(old, new, 1))
    try:
        b = subprocess.run(["go", "build", "./protocol/..."], cwd=WT, env=env, capture_output=True, text=True)
        if b.returncode != 0:
            print(name, "DOES-NOT-COMPILE", b.stderr[-300:]); continue
        r = subprocess.run(["./check", PID], cwd=os.path.dirname(os.path.dirname(os.path.abspath(__file__))), env=env, capture_output=True, text=True)
        out = [l for l in r.stdout.splitlines() if l.startswith(("VIOLATION", "OK", "KNOWN"))]
        first = ""
        m = re.search(r"replay=(\S+)", out[0]) if out else None
        if m and os.path.exists(m.group(1)):
            first = open(m.group(1)).read().splitlines()[1][:230]
        print(name, "exit", r.returncode, "|", len(out), "lines |", out[0] if out else r.stdout[-300:], "\n     ", first, flush=True)
    finally:
        open(path, "w").write(src)
