#!/usr/bin/env python3
"""debug helper: run a family's generated scripts through both drivers and show the first disagreements
usage: tools/famdiff.py <module> <class> [tier] [seed] [max]"""
import sys, os, random, importlib
sys.path.insert(0, os.path.dirname(os.path.dirname(os.path.abspath(__file__))))
from vlib import core
mod, cls = sys.argv[1], sys.argv[2]
tier = sys.argv[3] if len(sys.argv) > 3 else "quick"
seed = int(sys.argv[4]) if len(sys.argv) > 4 else 0
mx = int(sys.argv[5]) if len(sys.argv) > 5 else 3
fam = getattr(importlib.import_module("vlib." + mod), cls)()
rng = random.Random(seed)
named = fam.corpus() + list(fam.generate(tier, rng))
scripts = [l for _, l in named]
mo, io = core.run_both(fam.name, scripts)
bad = 0
for (nm, lines), m, i in zip(named, mo, io):
    d = core.first_diff(m, i)
    if d:
        bad += 1
        if bad <= mx:
            k = d[0]
            print("=====", nm, "line", k + 1)
            for j in range(max(0, k - 6), k + 1):
                print("  ", lines[j] if j < len(lines) else "<none>")
                print("      impl :", i[j] if j < len(i) else "<missing>")
                if j == k:
                    print("      model:", m[j] if j < len(m) else "<missing>")
            if os.environ.get("DUMP"):
                open(f"/tmp/famdiff-{bad}.ops", "w").write("\n".join(lines[:k + 1]) + "\n")
print(f"{len(named)} scripts, {bad} disagreements")
